"""Bitwise digests of the observable state of a party (an input object, a grid, an exported
object), read WITHOUT triggering any lazy population, and a diff that names what changed.
No PRNG, no clock, no id() here."""

import hashlib
import os

import numpy as np


def _sha(b):
    return hashlib.sha1(b).hexdigest()[:16]


def arr_digest(a):
    a = np.asarray(a)
    if a.dtype == object:
        return "obj:" + _sha(repr(a.tolist()).encode())
    return f"{a.dtype.str}{a.shape}:" + _sha(np.ascontiguousarray(a).tobytes())


def deep(v):
    """Deterministic deep representation of attrs-like values."""
    if isinstance(v, dict):
        return "{" + ",".join(f"{k!r}:{deep(x)}" for k, x in sorted(v.items(), key=lambda kv: repr(kv[0]))) + "}"
    if isinstance(v, (list, tuple)):
        return ("[" if isinstance(v, list) else "(") + ",".join(deep(x) for x in v) + "]"
    if isinstance(v, (set, frozenset)):
        return "{" + ",".join(sorted(deep(x) for x in v)) + "}"
    if isinstance(v, np.ndarray):
        return "nd:" + arr_digest(v)
    if isinstance(v, np.generic):
        return f"{type(v).__name__}:{v!r}"
    if isinstance(v, (str, int, float, bool)) or v is None:
        return f"{type(v).__name__}:{v!r}"
    tn = type(v).__name__
    if tn in ("DataArray", "Dataset"):
        return tn + ":" + deep(dataset_digest(v if tn == "Dataset" else v.to_dataset(name="v")))
    if hasattr(v, "proj4_params"):
        return tn + ":" + repr(sorted(v.proj4_params.items()))
    return "obj:" + tn


def var_digest(v):
    """xarray Variable/DataArray -> (dims, values digest, attrs)."""
    try:
        vals = v.values
    except Exception as e:  # unreadable variable: keep the class only
        return (tuple(map(str, v.dims)), "unreadable:" + type(e).__name__, deep(dict(v.attrs)))
    return (tuple(map(str, v.dims)), arr_digest(vals), deep(dict(v.attrs)))


def dataset_digest(ds):
    out = {}
    for n in sorted(map(str, ds.variables)):
        out["var:" + n] = var_digest(ds.variables[n])
    out["__attrs__"] = deep(dict(ds.attrs))
    out["__sizes__"] = deep({str(k): int(s) for k, s in ds.sizes.items()})
    out["__coords__"] = deep(sorted(map(str, ds.coords)))
    return out


def file_digest(path):
    h = hashlib.sha1()
    with open(path, "rb") as fh:
        for blk in iter(lambda: fh.read(1 << 20), b""):
            h.update(blk)
    st = os.stat(path)
    return {"content": h.hexdigest()[:16], "size": st.st_size}


def input_digest(x):
    """Digest of an object the caller handed to a constructor."""
    tn = type(x).__name__
    if tn == "Dataset":
        return dataset_digest(x)
    if isinstance(x, np.ndarray):
        return {"array": arr_digest(x), "writeable": bool(x.flags.writeable)}
    if isinstance(x, (list, tuple)):
        return {"seq": _sha(repr(x).encode()), "type": tn}
    if isinstance(x, dict):
        out = {}
        for k in sorted(x):
            for kk, vv in input_digest(x[k]).items():
                out[f"{k}.{kk}"] = vv
        out["__keys__"] = deep(sorted(x))
        return out
    if isinstance(x, str) and os.path.exists(x):
        return file_digest(x)
    return {"value": deep(x)}


def _cache_digest(c, key):
    if not c or c.get(key) is None:
        return None
    out = {}
    for k, v in sorted(c.items()):
        if k == key:
            obj = v
            tn = type(obj).__name__
            if tn == "GeoDataFrame":
                from . import ops as O

                out[k] = deep(repr(O.canon_gdf(obj)))
            elif tn == "PolyCollection":
                out[k] = _sha(b"".join(np.ascontiguousarray(p.vertices).tobytes() for p in obj.get_paths())) + ":" + (
                    "noarr" if obj.get_array() is None else arr_digest(np.asarray(obj.get_array()))
                )
            elif tn == "LineCollection":
                out[k] = _sha(b"".join(np.ascontiguousarray(p.vertices).tobytes() for p in obj.get_paths()))
            else:
                out[k] = tn
        else:
            out[k] = deep(np.asarray(v)) if isinstance(v, (list, np.ndarray)) else deep(v)
    return deep(out)


def grid_digest(g):
    """Everything a grid currently holds: every variable of its internal dataset (values, dims,
    attrs), dataset attrs, provenance, and the caches outside the dataset."""
    out = dataset_digest(g._ds)
    out["source_grid_spec"] = deep(g.source_grid_spec)
    out["source_dims_dict"] = deep({str(k): str(v) for k, v in (g._source_dims_dict or {}).items()})
    am = getattr(g, "_antimeridian_face_indices", None)
    out["cache:antimeridian"] = None if am is None else deep(np.asarray(am))
    jac = getattr(g, "_face_jacobian", None)
    out["cache:jacobian"] = None if jac is None else deep(np.asarray(jac))
    out["cache:gdf"] = _cache_digest(getattr(g, "_gdf_cached_parameters", None), "gdf")
    out["cache:polyc"] = _cache_digest(getattr(g, "_poly_collection_cached_parameters", None), "poly_collection")
    out["cache:linec"] = _cache_digest(getattr(g, "_line_collection_cached_parameters", None), "line_collection")
    return out


def diff(a, b):
    """Sorted list of keys whose digests differ (added/removed keys included)."""
    return sorted(k for k in set(a) | set(b) if a.get(k) != b.get(k))
