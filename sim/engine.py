"""Engine: zygote bootstrap, fork-per-run pool, seeded driver, delta-debugging minimiser,
replay, known-findings protocol, evidence writer.

Process layout
    check.py (main; never imports uxarray)
      └─ zygote  (fresh interpreter per configuration: imports uxarray from /repo's working
         │        tree, installs the seams, snapshots pristine module state, warms the JIT,
         │        prepares the profile's reference table)
         └─ one forked child per simulated run (pristine module state by construction)

One integer decides everything: run_seed = H(VERIF_SEED, property, index); a run is
generate(Random(run_seed)) -> trace, then execute(trace).  Replay executes a recorded trace and
never consults the PRNG.
"""

import hashlib
import importlib
import importlib.util
import json
import os
import pickle
import random
import select
import shutil
import signal
import subprocess
import sys
import time
import traceback

VERIF = os.path.dirname(os.path.dirname(os.path.abspath(__file__)))
REPO = os.environ.get("VERIF_REPO", "/repo")
PY = "/venv/bin/python"

PROFILES = {
    "C04": "coords",
    "C07": "encode",
    "C08": "history",
    "C09": "subset",
    "C11": "trees",
    "C15": "convert",
    "C19": "alias",
}


def scratch_base():
    d = os.environ.get("VERIF_SCRATCH") or f"/tmp/uxverif-{os.getuid()}"
    os.makedirs(d, exist_ok=True)
    return d


def tree_hash():
    h = hashlib.sha256()
    root = os.path.join(REPO, "uxarray")
    for dp, dn, fn in sorted(os.walk(root)):
        dn.sort()
        for f in sorted(fn):
            if f.endswith(".py"):
                p = os.path.join(dp, f)
                h.update(os.path.relpath(p, root).encode())
                with open(p, "rb") as fh:
                    h.update(fh.read())
    return h.hexdigest()[:16]


def run_seed(base, prop, index):
    return int(hashlib.sha256(f"{base}:{prop}:{index}".encode()).hexdigest()[:12], 16)


def load_profile(prop):
    name = PROFILES[prop]
    mod = importlib.import_module(f"profiles.{name}")
    return mod.PROFILE


# ----------------------------------------------------------------------------
# known findings
# ----------------------------------------------------------------------------
def load_findings(prop=None):
    p = os.path.join(VERIF, "known_findings.json")
    if not os.path.exists(p):
        return []
    with open(p) as fh:
        fs = json.load(fh).get("findings", [])
    return [f for f in fs if prop is None or f.get("property") == prop]


def match_finding(findings, signature):
    import re

    for f in findings:
        if f.get("status") != "known":
            continue
        if f.get("signature") == signature:
            return f
        if f.get("signature_re") and re.fullmatch(f["signature_re"], signature):
            return f
    return None


# ----------------------------------------------------------------------------
# zygote side
# ----------------------------------------------------------------------------
def zygote_env(jit, hashseed=0, jit_mech="preseed", extra=None):
    env = dict(os.environ)
    env["PYTHONHASHSEED"] = str(hashseed)
    env["MPLBACKEND"] = "Agg"
    env["OPENBLAS_NUM_THREADS"] = "1"
    env["MKL_NUM_THREADS"] = "1"
    env["PYTHONDONTWRITEBYTECODE"] = "1"
    env["PYTHONWARNINGS"] = "ignore"
    env["NUMBA_CACHE_DIR"] = os.path.join(scratch_base(), f"numba-{tree_hash()}")
    env["VERIF_JIT"] = "1" if jit else "0"
    env["VERIF_JIT_MECH"] = jit_mech
    env.pop("NUMBA_DISABLE_JIT", None)
    if not jit:
        env["NUMBA_DISABLE_JIT"] = "1"
    env["PYTHONPATH"] = VERIF + (":" + env["PYTHONPATH"] if env.get("PYTHONPATH") else "")
    if extra:
        env.update(extra)
    return env


def bootstrap_uxarray(jit, jit_mech):
    """Import uxarray from /repo's working tree under the requested JIT configuration."""
    import warnings

    warnings.simplefilter("ignore")
    if not jit and jit_mech == "preseed":
        # NUMBA_DISABLE_JIT=1 is already in the environment; uxarray/grid/area.py resets
        # numba.config.DISABLE_JIT from uxarray.constants.ENABLE_JIT, so hand it a constants
        # module (loaded from the same file) that says JIT is off.
        spec = importlib.util.spec_from_file_location("uxarray.constants", os.path.join(REPO, "uxarray", "constants.py"))
        m = importlib.util.module_from_spec(spec)
        spec.loader.exec_module(m)
        m.ENABLE_JIT = False
        sys.modules["uxarray.constants"] = m
    import uxarray  # noqa

    if "uxarray.constants" in sys.modules and not hasattr(uxarray, "constants"):
        uxarray.constants = sys.modules["uxarray.constants"]
    assert os.path.realpath(uxarray.__file__).startswith(os.path.realpath(REPO)), uxarray.__file__
    import numba

    return {"numba_disable_jit": bool(numba.config.DISABLE_JIT), "enable_jit": bool(sys.modules["uxarray.constants"].ENABLE_JIT)}


class Zygote:
    def __init__(self, job):
        self.job = job
        self.jit = bool(job["jit"])
        self.t0 = time.time()
        self.info = bootstrap_uxarray(self.jit, job.get("jit_mech", "preseed"))
        from . import world

        self.world = world
        self.modstate = world.ModuleState()  # pristine, right after import
        world.install_seams(self.jit)
        self.profile = load_profile(job["property"])
        self.scratch = os.path.join(scratch_base(), f"z-{os.getpid()}")
        os.makedirs(self.scratch, exist_ok=True)
        self.env = {
            "jit": self.jit,
            "scratch": self.scratch,
            "modstate": self.modstate,
            "tier": job.get("tier", "quick"),
            "ref": None,
            "tree_hash": tree_hash(),
        }
        if self.jit:
            self.warm()
        bad = self.modstate.diff()
        if bad:
            self.modstate.restore()
            assert not self.modstate.diff(), self.modstate.diff()
        self.info["warm_dirtied"] = bad
        self.findings = load_findings(job["property"])
        self.workers = int(job.get("workers", 8))
        self.timeout = float(job.get("run_timeout", 120))
        self.profile.prepare(self)
        self.info["startup_s"] = round(time.time() - self.t0, 2)

    def warm(self):
        """Compile every jitted function the profiles reach on a tiny grid, without running a
        parallel=True kernel in this process; populate the on-disk cache of the parallel
        latitude scan from a short-lived child."""
        import warnings

        import numpy as np
        import uxarray as ux

        from . import model as M

        with warnings.catch_warnings():
            warnings.simplefilter("ignore")
            for name, params in (("mix", {}), ("cap", {})):
                m = M.build(name, params)
                g = ux.Grid.from_topology(m.lon, m.lat, m.conn(fill=-1), fill_value=-1)
                for a in (
                    "n_nodes_per_face", "edge_node_connectivity", "face_edge_connectivity", "edge_face_connectivity",
                    "node_face_connectivity", "face_face_connectivity", "node_x", "face_lon", "face_x", "edge_lon",
                    "edge_x", "face_areas", "bounds", "edge_node_distances", "edge_face_distances",
                    "antimeridian_face_indices", "hole_edge_indices", "edge_node_z",
                ):
                    try:
                        getattr(g, a)
                    except Exception:
                        pass
                for rule, order in (("gaussian", 3), ("triangular", 4)):
                    for ll in (True, False):
                        try:
                            g.compute_face_areas(rule, order, ll)
                        except Exception:
                            pass
                try:
                    g.get_dual()
                except Exception:
                    pass
                try:
                    g.to_xarray("exodus")
                    g.to_polycollection()
                except Exception:
                    pass
        # parallel kernel: compile in a throw-away child so that no OpenMP pool exists here
        pid = os.fork()
        if pid == 0:
            try:
                from uxarray.grid.intersections import fast_constant_lat_intersections

                fast_constant_lat_intersections(10.0, np.zeros((4, 2)), 4)
            finally:
                os._exit(0)
        os.waitpid(pid, 0)

    # ------------------------------------------------------------------
    def fork_call(self, fn, *args):
        """Run fn(*args) in a forked child; return (pid, read_fd)."""
        r, w = os.pipe()
        pid = os.fork()
        if pid == 0:
            os.close(r)
            code = 0
            try:
                signal.signal(signal.SIGINT, signal.SIG_DFL)
                import faulthandler

                faulthandler.enable()
                try:
                    rec = fn(*args)
                except BaseException:
                    rec = {"harness_error": traceback.format_exc()[-3000:]}
                data = pickle.dumps(rec, protocol=4)
                off = 0
                while off < len(data):
                    off += os.write(w, data[off : off + 65536])
            except BaseException:
                code = 3
            finally:
                try:
                    shutil.rmtree(os.path.join(self.scratch, f"run-{os.getpid()}"), ignore_errors=True)
                finally:
                    os._exit(code)
        os.close(w)
        return pid, r

    def pool(self, tasks, fn, on_result, stop=lambda: False, workers=None):
        """tasks: iterator of (key, args).  Runs fn(*args) in forked children, at most
        ``workers`` at a time, calling on_result(key, record) in completion order."""
        workers = workers or self.workers
        active = {}  # fd -> [pid, key, t_start, bytearray]
        tasks = iter(tasks)
        exhausted = False
        while True:
            while not exhausted and len(active) < workers and not stop():
                try:
                    key, args = next(tasks)
                except StopIteration:
                    exhausted = True
                    break
                pid, fd = self.fork_call(fn, *args)
                active[fd] = [pid, key, time.time(), bytearray()]
            if not active:
                if exhausted or stop():
                    break
                continue
            ready, _, _ = select.select(list(active), [], [], 0.5)
            now = time.time()
            for fd in ready:
                chunk = os.read(fd, 1 << 20)
                if chunk:
                    active[fd][3] += chunk
                    continue
                pid, key, t0, buf = active.pop(fd)
                os.close(fd)
                _, status = os.waitpid(pid, 0)
                try:
                    rec = pickle.loads(bytes(buf)) if buf else {"harness_error": f"child died, status {status}"}
                except Exception:
                    rec = {"harness_error": "unparsable child output"}
                rec["wall_s"] = round(now - t0, 4)
                on_result(key, rec)
            for fd in list(active):
                pid, key, t0, buf = active[fd]
                if now - t0 > self.timeout:
                    try:
                        os.kill(pid, signal.SIGKILL)
                    except ProcessLookupError:
                        pass
                    os.waitpid(pid, 0)
                    os.close(fd)
                    active.pop(fd)
                    shutil.rmtree(os.path.join(self.scratch, f"run-{pid}"), ignore_errors=True)
                    on_result(key, {"harness_error": f"timeout after {self.timeout}s", "timeout": True, "wall_s": now - t0})

    # ------------------------------------------------------------------
    def run_trace(self, trace):
        return self.profile.execute(trace, self.env)

    def run_seeded(self, index, seed, cfg):
        rng = random.Random(seed)
        trace = self.profile.generate(rng, cfg)
        rec = self.profile.execute(trace, self.env)
        rec["index"] = index
        rec["seed"] = seed
        if rec.get("violations") or rec.get("harness_error") or index % 97 == 0 or index < 2:
            rec["trace"] = trace
        return rec

    def exec_one(self, trace):
        out = []
        self.pool([(0, (trace,))], self.run_trace, lambda k, r: out.append(r), workers=1)
        return out[0]

    # ------------------------------------------------------------------
    def shrink(self, trace, signature, budget_s=180):
        """Delta debugging over the op list; a candidate is accepted only if it yields the same
        signature.  Each candidate runs in a fresh forked child."""
        t_end = time.time() + budget_s
        tests = [0]

        def fails(ops_list):
            """Evaluate several candidates in parallel, return index of first that fails the same way."""
            res = {}

            def on(k, r):
                res[k] = any(v.get("signature") == signature for v in r.get("violations", []))

            cands = [(i, (dict(trace, ops=ops),)) for i, ops in enumerate(ops_list)]
            tests[0] += len(cands)
            self.pool(cands, self.run_trace, on)
            for i in range(len(ops_list)):
                if res.get(i):
                    return i
            return None

        ops = list(trace["ops"])
        # 1. truncate after the violating step is implicit (execution stops there); drop chunks
        n = 2
        while len(ops) >= 2 and time.time() < t_end:
            chunk = max(1, len(ops) // n)
            cands = []
            for s in range(0, len(ops), chunk):
                c = ops[:s] + ops[s + chunk :]
                if c:
                    cands.append(c)
            hit = fails(cands) if cands else None
            if hit is not None:
                ops = cands[hit]
                n = max(n - 1, 2)
            else:
                if chunk == 1:
                    break
                n = min(len(ops), n * 2)
        # 2. per-op simplification
        changed = True
        while changed and time.time() < t_end:
            changed = False
            for i in range(len(ops)):
                simp = list(self.profile.simplify(ops[i]))
                if not simp:
                    continue
                cands = [ops[:i] + [s] + ops[i + 1 :] for s in simp]
                hit = fails(cands)
                if hit is not None:
                    ops = cands[hit]
                    changed = True
        # 3. source simplification
        for cand_sources in self.profile.simplify_sources(trace.get("sources", {})):
            if time.time() > t_end:
                break
            t2 = dict(trace, ops=ops, sources=cand_sources)
            r = self.exec_one(t2)
            tests[0] += 1
            if any(v.get("signature") == signature for v in r.get("violations", [])):
                trace = dict(trace, sources=cand_sources)
        return dict(trace, ops=ops), tests[0]

    # ------------------------------------------------------------------
    def main_runs(self):
        job = self.job
        prop = job["property"]
        out = open(job["out"], "a")

        def emit(rec):
            out.write(json.dumps(rec) + "\n")
            out.flush()

        emit({"type": "zygote", "info": self.info, "jit": self.jit, "hashseed": os.environ.get("PYTHONHASHSEED")})
        base = int(job["base_seed"])
        offset, stride = job.get("offset", 0), job.get("stride", 1)
        max_runs = job.get("max_runs")
        budget = job.get("budget_s")
        t_end = time.time() + budget if budget else None
        cfg0 = self.profile.gen_cfg(job.get("tier", "quick"), self.jit)
        avoid_opts = {}
        for f in self.findings:
            if f.get("status") == "known":
                avoid_opts.update(f.get("avoid") or {})
        unknown = []  # (rec, violation)
        state = {"launched": 0}

        def tasks():
            k = 0
            while True:
                if max_runs is not None and k >= max_runs:
                    return
                if t_end and time.time() > t_end:
                    return
                index = offset + k * stride
                seed = run_seed(base, prop, index)
                cfg = dict(cfg0)
                cfg["index"] = index
                if avoid_opts and index % 2 == 1:
                    cfg["avoid"] = avoid_opts
                state["launched"] += 1
                k += 1
                yield index, (index, seed, cfg)

        digests = {}

        def on_result(index, rec):
            rec["type"] = "run"
            rec.setdefault("index", index)
            if rec.get("digest") and not rec.get("harness_error"):
                digests[index] = (rec["digest"], rec.get("seed"))
            vs = rec.get("violations") or []
            for v in vs:
                f = match_finding(self.findings, v["signature"])
                v["known"] = bool(f)
                if not f:
                    unknown.append((rec, v))
            emit(rec)

        survey = bool(job.get("survey"))
        self.pool(tasks(), self.run_seeded, on_result, stop=lambda: (not survey) and len(unknown) >= 1)
        # determinism self-test: the first few seeds once more, in other children of this zygote
        # (scheduling of the children differs; the digest of every op and outcome must not)
        n_again = int(job.get("determinism_runs", 8 if job.get("tier") == "quick" else 32))
        again = sorted(digests)[:n_again]
        divergent = []

        def on_again(index, rec):
            if rec.get("digest") != digests[index][0]:
                divergent.append({"index": index, "seed": digests[index][1], "first": digests[index][0], "second": rec.get("digest"), "error": (rec.get("harness_error") or "")[-300:]})

        def again_tasks():
            for index in again:
                cfg = dict(cfg0)
                cfg["index"] = index
                if avoid_opts and index % 2 == 1:
                    cfg["avoid"] = avoid_opts
                yield index, (index, run_seed(base, prop, index), cfg)

        if again and not unknown:
            self.pool(again_tasks(), self.run_seeded, on_again)
            emit({"type": "determinism", "checked": len(again), "divergent": divergent})
        if survey:
            hist = {}
            for rec, v in unknown:
                hist.setdefault(v["signature"], []).append(v.get("detail"))
            emit({"type": "survey", "hist": {k: [len(d), d[0]] for k, d in hist.items()}})
        # minimise unknown violations (distinct signatures, at most 3)
        seen = set()
        for rec, v in unknown:
            if v["signature"] in seen or len(seen) >= 3:
                continue
            seen.add(v["signature"])
            trace = rec.get("trace")
            if trace is None:
                continue
            t0 = time.time()
            small, ntests = self.shrink(trace, v["signature"], budget_s=job.get("shrink_budget_s", 150))
            r2 = self.exec_one(small)
            v2 = next((x for x in r2.get("violations", []) if x["signature"] == v["signature"]), v)
            emit(
                {
                    "type": "violation",
                    "property": prop,
                    "seed": rec.get("seed"),
                    "index": rec.get("index"),
                    "signature": v["signature"],
                    "violation": v2,
                    "trace": small,
                    "orig_len": len(trace["ops"]),
                    "min_len": len(small["ops"]),
                    "shrink_tests": ntests,
                    "shrink_s": round(time.time() - t0, 1),
                    "digest": r2.get("digest"),
                    "config": {"jit": self.jit, "jit_mech": job.get("jit_mech", "preseed"), "hashseed": int(os.environ.get("PYTHONHASHSEED", "0"))},
                }
            )
        emit({"type": "done", "launched": state["launched"], "wall_s": round(time.time() - self.t0, 2)})
        out.close()

    def main_trace(self):
        job = self.job
        with open(job["trace_file"]) as fh:
            rp = json.load(fh)
        rec = self.exec_one(rp["trace"])
        with open(job["out"], "a") as out:
            out.write(json.dumps({"type": "replay", "rec": rec}) + "\n")

    def main_seeds(self):
        """Determinism self-test helper: run the listed (index, seed) pairs, emit digests."""
        job = self.job
        cfg0 = self.profile.gen_cfg(job.get("tier", "quick"), self.jit)
        out = open(job["out"], "a")

        def tasks():
            for index in job["indices"]:
                cfg = dict(cfg0)
                cfg["index"] = index
                yield index, (index, run_seed(int(job["base_seed"]), job["property"], index), cfg)

        def on(index, rec):
            out.write(json.dumps({"type": "run", "index": index, "digest": rec.get("digest"), "harness_error": rec.get("harness_error"), "nviol": len(rec.get("violations") or [])}) + "\n")

        self.pool(tasks(), self.run_seeded, on)
        out.close()

    def main_debug(self):
        """Run one index in-process with per-step timing (diagnostics only)."""
        job = self.job
        cfg = dict(self.profile.gen_cfg(job.get("tier", "quick"), self.jit), index=job["index"])
        seed = run_seed(int(job["base_seed"]), job["property"], job["index"])
        trace = self.profile.generate(random.Random(seed), cfg)
        print("seed", seed, "sources", json.dumps(trace.get("source_ids") or trace["sources"]))
        orig = self.profile.step

        def timed(W, i, op):
            t = time.time()
            r = orig(W, i, op)
            print(f"  step {i:3d} {time.time() - t:8.3f}s {json.dumps(op)}  -> {[v['signature'] for v in r[1]]}")
            sys.stdout.flush()
            return r

        self.profile.step = timed
        rec = self.profile.execute(trace, self.env)
        print("violations", rec["violations"])

    def cleanup(self):
        shutil.rmtree(self.scratch, ignore_errors=True)


def zygote_main(jobfile):
    with open(jobfile) as fh:
        job = json.load(fh)
    sys.path.insert(0, VERIF)
    z = None
    try:
        z = Zygote(job)
        mode = job.get("mode", "runs")
        if mode == "runs":
            z.main_runs()
        elif mode == "trace":
            z.main_trace()
        elif mode == "seeds":
            z.main_seeds()
        elif mode == "debug":
            z.main_debug()
        else:
            raise ValueError(mode)
    except BaseException:
        with open(job["out"], "a") as out:
            out.write(json.dumps({"type": "zygote_error", "error": traceback.format_exc()[-4000:]}) + "\n")
        raise
    finally:
        if z is not None:
            z.cleanup()


# ----------------------------------------------------------------------------
# main side
# ----------------------------------------------------------------------------
def spawn_zygote(job, jit, hashseed=0, jit_mech="preseed", extra_env=None):
    d = os.path.join(scratch_base(), "jobs")
    os.makedirs(d, exist_ok=True)
    tag = f"{os.getpid()}-{int(time.time() * 1000) % 100000000}-{'on' if jit else 'off'}-{random.SystemRandom().randrange(10**6)}"
    jobfile = os.path.join(d, f"job-{tag}.json")
    out = os.path.join(d, f"out-{tag}.jsonl")
    job = dict(job, jit=jit, jit_mech=jit_mech, out=out)
    with open(jobfile, "w") as fh:
        json.dump(job, fh)
    log = open(os.path.join(d, f"log-{tag}.txt"), "w")
    p = subprocess.Popen(
        [PY, os.path.join(VERIF, "check.py"), "--zygote", jobfile],
        env=zygote_env(jit, hashseed, jit_mech, extra_env),
        stdout=log,
        stderr=subprocess.STDOUT,
        cwd=VERIF,
    )
    return {"proc": p, "out": out, "jobfile": jobfile, "log": log.name, "jit": jit}


def collect(z, timeout):
    try:
        z["proc"].wait(timeout=timeout)
    except subprocess.TimeoutExpired:
        z["proc"].kill()
        z["proc"].wait()
        z["timed_out"] = True
    recs = []
    if os.path.exists(z["out"]):
        with open(z["out"]) as fh:
            for line in fh:
                line = line.strip()
                if line:
                    try:
                        recs.append(json.loads(line))
                    except Exception:
                        recs.append({"type": "garbled"})
    z["rc"] = z["proc"].returncode
    return recs


def cleanup_jobfiles(z, keep_log=False):
    for k in ("out", "jobfile") + (() if keep_log else ("log",)):
        try:
            os.remove(z[k])
        except OSError:
            pass


def replay_file(path, quiet=False):
    """Execute a replay file in a fresh interpreter.  Returns (exit_code, record)."""
    with open(path) as fh:
        rp = json.load(fh)
    cfg = rp.get("config", {})
    job = {"property": rp["property"], "mode": "trace", "trace_file": os.path.abspath(path), "workers": 1, "tier": "quick"}
    z = spawn_zygote(job, bool(cfg.get("jit", False)), int(cfg.get("hashseed", 0)), cfg.get("jit_mech", "preseed"))
    recs = collect(z, 900)
    rec = next((r["rec"] for r in recs if r.get("type") == "replay"), None)
    if rec is None:
        err = next((r for r in recs if r.get("type") == "zygote_error"), None)
        if not quiet:
            print("HARNESS-ERROR replay did not run:", (err or {}).get("error", open(z["log"]).read()[-2000:]))
        cleanup_jobfiles(z)
        return 2, None
    cleanup_jobfiles(z)
    want = rp["violation"]["signature"]
    sigs = [v["signature"] for v in rec.get("violations") or []]
    if want in sigs:
        if not quiet:
            v = next(v for v in rec["violations"] if v["signature"] == want)
            print(f"replayed: signature={want}")
            print(f"  step {v.get('step')}: {v.get('detail')}")
            print(f"  digest {rec.get('digest')} (recorded {rp.get('digest')})")
            print(f"VIOLATION property={rp['property']} replay={path}")
        return 1, rec
    if rec.get("harness_error"):
        if not quiet:
            print("HARNESS-ERROR during replay:", rec["harness_error"])
        return 2, rec
    if not quiet:
        print(f"replay did not reproduce signature {want}; got {sigs}")
    return 0, rec


TIERS = {
    # per-property overrides live in the profile (PROFILE.budget)
    "quick": {"off_runs": 600, "on_runs": 60, "timeout": 420},
    "thorough": {"budget_s": 900, "timeout": None},
}


def run_check(prop, tier, base_seed, only_jit=None):
    t0 = time.time()
    sys.path.insert(0, VERIF)
    prof_name = PROFILES[prop]
    # the profile module is imported lazily in the main process only for its static budget
    # table (no uxarray import at module level in profiles/*)
    mod = importlib.import_module(f"profiles.{prof_name}")
    budget = dict(TIERS[tier])
    budget.update(getattr(mod, "BUDGET", {}).get(tier, {}))
    ncpu = os.cpu_count() or 4
    print(f"# check property={prop} profile={prof_name} tier={tier} VERIF_SEED={base_seed} tree={tree_hash()}")
    sys.stdout.flush()
    zs = []
    want_on = budget.get("on_runs", 0) > 0 or (tier == "thorough" and budget.get("jit_on", True))
    want_off = budget.get("off_runs", 1) > 0 or tier == "thorough"
    if only_jit == "on":
        want_off = False
    if only_jit == "off":
        want_on = False
    w_on = max(2, ncpu // 4) if (want_on and want_off) else ncpu
    w_off = max(2, ncpu - w_on) if (want_on and want_off) else ncpu
    common = {"property": prop, "mode": "runs", "tier": tier, "base_seed": base_seed, "run_timeout": budget.get("run_timeout", 120), "survey": bool(os.environ.get("VERIF_SURVEY"))}
    hs_runs = int(budget.get("hashseed_runs", 0)) if only_jit is None else 0
    if tier == "quick":
        if want_off:
            zs.append(spawn_zygote(dict(common, workers=w_off, max_runs=budget["off_runs"], offset=0, stride=2, budget_s=budget["timeout"] - 60), False))
        if want_on:
            zs.append(spawn_zygote(dict(common, workers=w_on, max_runs=budget["on_runs"], offset=1, stride=2, budget_s=budget["timeout"] - 60), True))
        if hs_runs:
            # configuration axis: the same profile under another PYTHONHASHSEED (set/dict iteration
            # order inside uxarray, e.g. Grid.chunk iterating a set of variable names)
            zs.append(spawn_zygote(dict(common, workers=2, max_runs=hs_runs, offset=10**6, stride=1, budget_s=budget["timeout"] - 60), False, hashseed=4242))
        wall_cap = budget["timeout"] + 300
    else:
        b = float(os.environ.get("VERIF_BUDGET_S", budget["budget_s"]))
        if want_off:
            zs.append(spawn_zygote(dict(common, workers=w_off, offset=0, stride=2, budget_s=b, shrink_budget_s=300), False))
        if want_on:
            zs.append(spawn_zygote(dict(common, workers=w_on, offset=1, stride=2, budget_s=b, shrink_budget_s=300), True))
        if hs_runs:
            zs.append(spawn_zygote(dict(common, workers=2, offset=10**6, stride=1, budget_s=b, shrink_budget_s=300), False, hashseed=4242))
        wall_cap = b + 1200
    allrecs = []
    harness_errors = []
    for z in zs:
        recs = collect(z, wall_cap)
        if z.get("timed_out"):
            harness_errors.append(f"zygote jit={z['jit']} exceeded wall cap {wall_cap}s")
        if z["rc"] not in (0, None) or any(r.get("type") == "zygote_error" for r in recs):
            err = next((r["error"] for r in recs if r.get("type") == "zygote_error"), None)
            if err is None:
                try:
                    err = open(z["log"]).read()[-3000:]
                except OSError:
                    err = "?"
            harness_errors.append(f"zygote jit={z['jit']} failed rc={z['rc']}: {err}")
        if not any(r.get("type") == "done" for r in recs):
            harness_errors.append(f"zygote jit={z['jit']} did not finish")
        hs = next((r.get("hashseed") for r in recs if r.get("type") == "zygote"), None)
        for r in recs:
            r["jit"] = z["jit"]
            r["hashseed"] = hs
        allrecs += recs
        cleanup_jobfiles(z, keep_log=bool(harness_errors))
    for r in allrecs:
        if r.get("type") == "determinism" and r.get("divergent"):
            harness_errors.append(f"determinism self-test: {len(r['divergent'])} of {r['checked']} re-executed seeds gave another digest: {r['divergent'][:2]}")
    extra = {}
    if hasattr(mod, "extra_checks") and only_jit is None:
        # profile-specific checks that need their own interpreters (e.g. the public JIT switch)
        extra = mod.extra_checks(tier, base_seed) or {}
    return finish_check(prop, tier, base_seed, allrecs, harness_errors, time.time() - t0, mod, extra)


def finish_check(prop, tier, base_seed, recs, harness_errors, wall, mod, extra):
    runs = [r for r in recs if r.get("type") == "run"]
    viols = [r for r in recs if r.get("type") == "violation"]
    for r in recs:
        if r.get("type") == "survey":
            for k, (n, d) in sorted(r["hist"].items(), key=lambda kv: -kv[1][0]):
                print(f"SURVEY jit={r.get('jit')} {n:5d}  {k}\n          {d}")
    for v in extra.get("violations", []):
        viols.append(v)
    findings = load_findings(prop)
    known_hit = {}
    n_viol_runs = 0
    for r in runs:
        if r.get("harness_error"):
            harness_errors.append(f"run index={r.get('index')} seed={r.get('seed')}: {r['harness_error'][-600:]}")
        for v in r.get("violations") or []:
            if v.get("known"):
                known_hit[v["signature"]] = known_hit.get(v["signature"], 0) + 1
        if r.get("violations"):
            n_viol_runs += 1
    for k, n in extra.get("known_hit", {}).items():
        known_hit[k] = known_hit.get(k, 0) + n
    # replays
    rdir = os.environ.get("VERIF_REPLAY_DIR") or os.path.join(VERIF, "replays")
    exit_code = 0
    lines = []
    for v in viols:
        os.makedirs(rdir, exist_ok=True)
        sig = v["signature"]
        h = hashlib.sha1(sig.encode()).hexdigest()[:10]
        path = os.path.join(rdir, f"{prop}-{h}-{v.get('seed', 0)}.json")
        rp = {
            "format": 1,
            "property": prop,
            "profile": PROFILES[prop],
            "seed": v.get("seed"),
            "index": v.get("index"),
            "config": v.get("config", {"jit": False, "hashseed": 0}),
            "trace": v.get("trace"),
            "violation": v.get("violation", {"signature": sig}),
            "digest": v.get("digest"),
            "minimised": {"from": v.get("orig_len"), "to": v.get("min_len"), "tests": v.get("shrink_tests")},
        }
        rp["violation"]["signature"] = sig
        with open(path, "w") as fh:
            json.dump(rp, fh, indent=1)
        confirmed = None
        if v.get("trace") is not None:
            code, _ = replay_file(path, quiet=True)
            confirmed = code == 1
        print(f"violation: {sig}")
        print(f"  detail: {rp['violation'].get('detail')}")
        print(f"  seed={v.get('seed')} index={v.get('index')} ops {v.get('orig_len')} -> {v.get('min_len')} (fresh-interpreter replay reproduced: {confirmed})")
        lines.append(f"VIOLATION property={prop} replay={path}")
        exit_code = 1
    per_finding = {}
    for sig, n in sorted(known_hit.items()):
        f = match_finding(findings, sig)
        key = (f.get("id") or f.get("signature") or f.get("signature_re")) if f else sig
        ent = per_finding.setdefault(key, {"f": f, "n": 0, "sigs": []})
        ent["n"] += n
        ent["sigs"].append(sig)
    for key, ent in sorted(per_finding.items()):
        f = ent["f"]
        print(f"KNOWN-FINDING: property={prop} {f.get('what', key) if f else key} [finding {key}; met in {ent['n']} runs; {len(ent['sigs'])} concrete signatures, e.g. {ent['sigs'][0]}]")
    for f in findings:
        if f.get("status") == "known" and not any(match_finding([f], s) for s in known_hit):
            print(f"KNOWN-FINDING-NOT-REPRODUCED: property={prop} signature={f.get('signature') or f.get('signature_re')} (informational)")
    for ln in lines:
        print(ln)
    if harness_errors and exit_code == 0:
        exit_code = 2
    for e in harness_errors[:5]:
        print("HARNESS-ERROR", e)
    write_evidence(prop, tier, base_seed, recs, runs, viols, known_hit, harness_errors, wall, mod, extra)
    ok_runs = [r for r in runs if not r.get("harness_error")]
    print(f"# {prop}: {len(ok_runs)} runs, {sum(r.get('n_steps', 0) for r in ok_runs)} steps, {len(viols)} new violations, {sum(known_hit.values())} runs met known findings, {len(harness_errors)} harness errors, {wall:.1f}s")
    return exit_code


def write_evidence(prop, tier, base_seed, recs, runs, viols, known_hit, harness_errors, wall, mod, extra):
    ok = [r for r in runs if not r.get("harness_error")]
    fps = {}
    pert = {}
    states, trans, opcls = set(), set(), {}
    judged = 0
    steps = 0
    par = {}
    clock = {"reads": 0, "span_s": 0.0}
    avoid_runs = 0
    cfgs = {"jit_on": 0, "jit_off": 0, "by_pythonhashseed": {}}
    interleavings = set()
    failed_ops = 0
    for r in ok:
        c = r.get("cov", {})
        cfgs["jit_on" if r.get("jit") else "jit_off"] += 1
        cfgs["by_pythonhashseed"][str(r.get("hashseed"))] = cfgs["by_pythonhashseed"].get(str(r.get("hashseed")), 0) + 1
        if c.get("nontrivial"):
            fps[c.get("fingerprint")] = fps.get(c.get("fingerprint"), 0) + 1
        for k, n in (c.get("perturbations") or {}).items():
            pert[k] = pert.get(k, 0) + n
        for k, n in (c.get("op_classes") or {}).items():
            opcls[k] = opcls.get(k, 0) + n
        states.update(c.get("states") or [])
        trans.update(tuple(t) for t in (c.get("transitions") or []))
        judged += c.get("judged", 0)
        failed_ops += c.get("failed_ops", 0)
        steps += r.get("n_steps", 0)
        for k, n in (c.get("par") or {}).items():
            par[k] = par.get(k, 0) + n
        interleavings.update(c.get("interleavings") or [])
        clock["reads"] += (c.get("clock") or {}).get("reads", 0)
        clock["span_s"] += (c.get("clock") or {}).get("span_s", 0.0)
        avoid_runs += 1 if c.get("avoid") else 0
    samples = []
    for r in runs:
        if r.get("trace") and not r.get("harness_error") and len(samples) < 3:
            samples.append({"seed": r.get("seed"), "index": r.get("index"), "jit": r.get("jit"), "sources": r["trace"].get("sources"), "ops": r["trace"].get("ops")[:40], "digest": r.get("digest")})
    zinfo = [r for r in recs if r.get("type") == "zygote"]
    seeds = sorted(r.get("seed") for r in ok if r.get("seed") is not None)
    cov = {
        "evaluations": len(ok),
        "distinct_nontrivial": len(fps),
        "rule": getattr(mod, "RULE", ""),
        "samples": samples or [{"note": "no trace recorded"}],
        "states": len(states),
        "transitions": len(trans),
        "steps_total": steps,
        "observations_judged": judged,
        "perturbations_fired": dict(sorted(pert.items())),
        "op_classes": dict(sorted(opcls.items())),
        "failed_ops": failed_ops,
        "configs": dict(cfgs, jit_off_mechanism="NUMBA_DISABLE_JIT=1 + uxarray.constants.ENABLE_JIT=False pre-seeded (see DESIGN 3.1)"),
        "par_schedules": dict(sorted(par.items())),
        "distinct_prange_interleavings": len(interleavings),
        "sim_clock": clock,
        "seeds": {"base": base_seed, "first": seeds[0] if seeds else None, "last": seeds[-1] if seeds else None, "n": len(seeds)},
        "runs_per_hour": int(len(ok) / max(wall, 1e-9) * 3600),
        "known_findings_hit": known_hit,
        "avoid_mode_runs": avoid_runs,
        "harness_errors": len(harness_errors),
        "zygotes": [dict(z.get("info", {}), jit=z.get("jit"), hashseed=z.get("hashseed")) for z in zinfo],
        "components": getattr(mod, "COMPONENTS", {}),
        "simulated_time_note": "uxarray has no timers; the only clock reader is the Exodus encoder (sim_clock)",
        "determinism_selftest": {
            "what": "the first seeds of each zygote re-executed in other forked children; run digests (SHA-256 over every op and canonical outcome) compared",
            "seeds_reexecuted": sum(r.get("checked", 0) for r in recs if r.get("type") == "determinism"),
            "divergent": sum(len(r.get("divergent") or []) for r in recs if r.get("type") == "determinism"),
            "full_selftest_cmd": "/venv/bin/python /verif/check.py --selftest determinism --property <id> --n 200  (two zygotes, PYTHONHASHSEED 0 and 4242, 16 and 2 workers)",
        },
    }
    cov.update(extra.get("coverage", {}))
    ev = {
        "property_id": prop,
        "tier": tier,
        "seed": int(base_seed),
        "level": "exploration",
        "coverage": cov,
        "assumptions": getattr(mod, "ASSUMPTIONS", []),
        "wall_s": round(wall, 2),
        "violations": len(viols),
    }
    d = os.environ.get("VERIF_EVIDENCE_DIR") or os.path.join(VERIF, "evidence")
    os.makedirs(d, exist_ok=True)
    with open(os.path.join(d, f"{prop}.json"), "w") as fh:
        json.dump(ev, fh, indent=1, sort_keys=True)
