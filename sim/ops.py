"""Shared operation vocabulary: apply one public uxarray call described by a JSON op to a grid
and canonicalise what it returned.  Ops never draw from a PRNG."""

import numpy as np

from . import canon as C

# attributes that are lazily derived (value attributes)
VALUE_ATTRS = [
    "n_node", "n_edge", "n_face", "n_max_face_nodes", "n_max_face_edges", "n_max_face_faces", "n_max_node_faces",
    "n_nodes_per_face",
    "node_lon", "node_lat", "node_x", "node_y", "node_z",
    "edge_lon", "edge_lat", "edge_x", "edge_y", "edge_z",
    "face_lon", "face_lat", "face_x", "face_y", "face_z",
    "face_node_connectivity", "edge_node_connectivity", "face_edge_connectivity", "face_face_connectivity",
    "edge_face_connectivity", "node_face_connectivity",
    "edge_node_z", "edge_node_distances", "edge_face_distances",
    "antimeridian_face_indices", "face_areas", "face_jacobian", "bounds", "hole_edge_indices",
    "source_grid_spec",
]
# attributes that fail by documented contract on every grid that does not ship them
FAILING_ATTRS = ["node_node_connectivity", "edge_edge_connectivity", "node_edge_connectivity", "n_max_edge_edges", "n_max_node_edges"]
# introspection: report WHICH variables are materialised (judged by the superset rule)
INTROSPECTION = ["dims", "sizes", "coordinates", "connectivity", "descriptors", "repr"]

DERIVABLE = {
    "n_nodes_per_face", "node_lon", "node_lat", "node_x", "node_y", "node_z", "edge_lon", "edge_lat", "edge_x", "edge_y",
    "edge_z", "face_lon", "face_lat", "face_x", "face_y", "face_z", "edge_node_connectivity", "face_edge_connectivity",
    "face_face_connectivity", "edge_face_connectivity", "node_face_connectivity", "edge_node_z", "edge_node_distances",
    "edge_face_distances", "face_areas", "bounds", "hole_edge_indices",
}
DERIVABLE_DIMS = {"n_edge", "two", "n_max_face_edges", "n_max_face_faces", "n_max_node_faces", "n_max_edge_faces"}


def projection(name):
    import cartopy.crs as ccrs

    if name is None:
        return None
    if name == "robinson":
        return ccrs.Robinson()
    if name == "pc180":
        return ccrs.PlateCarree(central_longitude=180)
    if name == "pc0":
        return ccrs.PlateCarree()
    if name == "mollweide":
        return ccrs.Mollweide()
    if name == "rob100":
        return ccrs.Robinson(central_longitude=100)
    if name == "ortho":
        return ccrs.Orthographic(central_longitude=-30, central_latitude=20)
    if name == "ortho2":
        return ccrs.Orthographic(central_longitude=150, central_latitude=-40)
    raise ValueError(name)


# ----------------------------------------------------------------------------
# canonical geometry
# ----------------------------------------------------------------------------
def _shape_rings(geom):
    """shapely (Multi)Polygon -> tuple of exterior rings as float64 arrays."""
    if geom is None:
        return ()
    if geom.geom_type == "MultiPolygon":
        return tuple(np.asarray(p.exterior.coords, dtype=np.float64) for p in geom.geoms)
    if geom.geom_type == "Polygon":
        return (np.asarray(geom.exterior.coords, dtype=np.float64),)
    # anything else (only ever put there by a caller edit): keep type and coordinates
    try:
        return (geom.geom_type, np.asarray(geom.coords, dtype=np.float64))
    except Exception:
        return (geom.geom_type, geom.wkt)


def gdf_rows(gdf):
    """List (per row) of tuples of rings."""
    geom = gdf["geometry"]
    rows = []
    mod = type(gdf).__module__
    if mod.startswith("geopandas"):
        for gm in geom.values:
            rows.append(_shape_rings(gm))
    else:
        arr = geom.values if hasattr(geom, "values") else geom
        for i in range(len(arr)):
            rows.append(_shape_rings(arr[i].to_shapely()))
    return rows


def canon_gdf(gdf):
    rows = gdf_rows(gdf)
    cols = tuple(str(c) for c in gdf.columns)
    data = []
    for c in gdf.columns:
        if str(c) != "geometry":
            data.append((str(c), C.canon(np.asarray(gdf[c].values))))
    return ("gdf", type(gdf).__module__.split(".")[0], cols, tuple(data), tuple(tuple(C.canon(r) for r in row) for row in rows))


def _transform_name(t):
    try:
        return type(t).__name__ + ":" + str(sorted(t.proj4_params.items()))
    except Exception:
        return type(t).__name__


def canon_polyc(pc):
    paths = tuple(C.canon(np.asarray(p.vertices, dtype=np.float64)) for p in pc.get_paths())
    arr = pc.get_array()
    return ("polyc", _transform_name(pc._transform), paths, None if arr is None else C.canon(np.asarray(arr)))


def canon_linec(lc):
    segs = tuple(C.canon(np.asarray(s, dtype=np.float64)) for s in lc.get_segments())
    return ("linec", _transform_name(lc._transform), segs)


def canon_any(x):
    tn = type(x).__name__
    if tn == "GeoDataFrame":
        return canon_gdf(x)
    if tn == "PolyCollection":
        return canon_polyc(x)
    if tn == "LineCollection":
        return canon_linec(x)
    if isinstance(x, tuple) and x and type(x[0]).__name__ in ("GeoDataFrame", "PolyCollection", "LineCollection"):
        return ("seq", tuple(canon_any(y) for y in x))
    return C.canon(x)


# ----------------------------------------------------------------------------
# trees
# ----------------------------------------------------------------------------
PROBE_LONLAT = [(-179.5, 10.0), (12.0, 88.5), (45.0, -30.0), (179.9, -5.0)]


def get_tree(g, op):
    kw = {}
    for k_op, k_api in (("coords", "coordinates"), ("csys", "coordinate_system"), ("metric", "distance_metric"), ("reconstruct", "reconstruct")):
        if op.get(k_op) is not None:
            kw[k_api] = op[k_op]
    if op["type"] == "ball":
        return g.get_ball_tree(**kw)
    return g.get_kd_tree(**kw)


def tree_defaults(op):
    if op["type"] == "ball":
        return op.get("coords") or "nodes", op.get("csys") or "spherical", op.get("metric") or "haversine"
    return op.get("coords") or "nodes", op.get("csys") or "cartesian", op.get("metric") or "minkowski"


def probe_tree(t, op, n_expected=None):
    """Fixed probe queries in the coordinate system REQUESTED by the call; k runs up to the number
    of elements of the requested kind as the GRID reports it (not the tree's own count)."""
    from . import model as M

    coords, csys, metric = tree_defaults(op)
    n = int(n_expected) if n_expected else t._n_elements
    if csys == "spherical":
        if op["type"] == "ball":
            pts = np.array(PROBE_LONLAT)  # (lon, lat)
        else:
            pts = np.array([(la, lo) for lo, la in PROBE_LONLAT])  # kd spherical: (lat, lon)
    else:
        pts = M.unit(np.array([p[0] for p in PROBE_LONLAT]), np.array([p[1] for p in PROBE_LONLAT]))
    out = []
    for k in sorted({1, min(3, n), n if n <= 400 else 3}):
        try:
            d, ind = t.query(pts, k=k)
            out.append(("q", k, C.canon(np.asarray(d, dtype=np.float64)), C.canon(np.asarray(ind))))
        except Exception as e:  # wrong-dimension query etc.
            out.append(("q", k, ("exc", type(e).__name__)))
    return tuple(out)


def canon_tree(t, op, n_expected=None):
    return ("tree", type(t).__name__, str(t._coordinates), str(t.coordinate_system), str(t.distance_metric), probe_tree(t, op, n_expected))


# ----------------------------------------------------------------------------
# apply
# ----------------------------------------------------------------------------
def _mod_unique(idx, g, dim):
    """Menu indices folded into the grid's range, duplicates dropped, order kept."""
    n = {"n_face": lambda: g.n_face, "n_node": lambda: g.n_node, "n_edge": lambda: g.n_edge}[dim]()
    out, seen = [], set()
    for x in idx:
        if x % n not in seen:
            seen.add(x % n)
            out.append(x % n)
    return out


def apply(W, op):
    """Perform the public call; return the canonical outcome.  Exceptions propagate."""
    name = op["op"]
    g = W.grid(op["g"])
    if name == "attr":
        a = op["name"]
        if a == "repr":
            return repr(g)
        v = getattr(g, a)
        return C.canon(v)
    if name == "areas":
        ar, jac = g.compute_face_areas(op.get("rule", "triangular"), op.get("order", 4), op.get("latlon", True))
        return C.canon((np.asarray(ar), np.asarray(jac)))
    if name == "total_area":
        return C.canon(g.calculate_total_face_area(op.get("rule", "triangular"), op.get("order", 4)))
    if name == "to_xarray":
        ds = g.to_xarray(op["fmt"]) if op.get("api", "to_xarray") == "to_xarray" else g.encode_as({"ugrid": "UGRID", "exodus": "Exodus", "scrip": "SCRIP"}[op["fmt"]])
        c = C.canon_dataset(ds)
        if op["fmt"] == "exodus":
            # time stamps are not part of the value
            c = (c[0], tuple((n, v) for n, v in c[1] if n != "qa_records"), c[2])
        return c
    if name == "gdf":
        kw = dict(periodic_elements=op.get("pe", "exclude"), projection=projection(op.get("proj")), cache=op.get("cache", True), override=op.get("override", False), engine=op.get("engine", "spatialpandas"))
        if op.get("ret_idx"):
            kw["return_non_nan_polygon_indices"] = True
        return canon_any(g.to_geodataframe(**kw))
    if name == "polyc":
        kw = dict(periodic_elements=op.get("pe", "exclude"), projection=projection(op.get("proj")), cache=op.get("cache", True), override=op.get("override", False))
        if op.get("ret_idx"):
            kw["return_indices"] = True
        r = g.to_polycollection(**kw)
        if op.get("ret_idx"):
            return ("seq", (canon_polyc(r[0]), C.canon(np.asarray(r[1], dtype=np.int64))))
        return canon_polyc(r)
    if name == "linec":
        kw = dict(periodic_elements=op.get("pe", "exclude"), projection=projection(op.get("proj")), cache=op.get("cache", True), override=op.get("override", False))
        return canon_linec(g.to_linecollection(**kw))
    if name == "tree":
        t = get_tree(g, op)
        coords = tree_defaults(op)[0]
        n_exp = {"nodes": lambda: g.n_node, "face centers": lambda: g.n_face, "edge centers": lambda: g.n_edge}[coords]()
        return canon_tree(t, op, n_exp)
    if name == "chunk":
        g.chunk(n_node=op.get("n_node", -1), n_edge=op.get("n_edge", -1), n_face=op.get("n_face", -1))
        return None
    if name == "isel":
        idx = _mod_unique(op["idx"], g, op["dim"])
        if op.get("all"):
            idx = list(range(g._ds.sizes[op["dim"]] if op["dim"] != "n_edge" else g.n_edge))
        sub = g.isel(**{op["dim"]: (idx if not op.get("scalar") else idx[0])})
        return C.canon_grid(sub)
    if name == "isel_attr":
        # a derived quantity read on a subset: must not depend on what the PARENT had derived
        idx = _mod_unique(op["idx"], g, op["dim"])
        sub = g.isel(**{op["dim"]: idx})
        v = getattr(sub, op["name"])
        return C.canon(v)
    if name == "bbox":
        sub = g.subset.bounding_box(tuple(op["lon"]), tuple(op["lat"]), element=op.get("element", "nodes"))
        return C.canon_grid(sub)
    if name == "bcircle":
        sub = g.subset.bounding_circle(tuple(op["center"]), op["r"], element=op.get("element", "nodes"))
        return C.canon_grid(sub)
    if name == "knn":
        sub = g.subset.nearest_neighbor(tuple(op["center"]), k=op["k"], element=op.get("element", "nodes"))
        return C.canon_grid(sub)
    if name == "xsec":
        sub = g.cross_section.constant_latitude(op["lat"])
        return C.canon_grid(sub)
    if name == "faces_at_lat":
        return C.canon(np.asarray(g.get_faces_at_constant_latitude(op["lat"])))
    if name == "edges_at_lat":
        return C.canon(np.atleast_1d(np.asarray(g.get_edges_at_constant_latitude(op["lat"]))))
    if name == "dual":
        return C.canon_grid(g.get_dual())
    if name == "copy":
        return C.canon_grid(g.copy())
    if name == "validate":
        import contextlib
        import io

        with contextlib.redirect_stdout(io.StringIO()):
            return bool(g.validate())
    if name == "eq":
        other = W.grid(op["other"])
        return (bool(g == other), bool(g != other))
    raise ValueError(f"unknown op {name}")


def apply_safe(W, op):
    """(canonical outcome, exception or None)."""
    try:
        return apply(W, op), None
    except Exception as e:  # the library's own exceptions are outcomes
        return ("exc", type(e).__name__), e
