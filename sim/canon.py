"""Canonical values: turn whatever a public uxarray call returns into a plain nested structure
of tuples / str / int / float / numpy arrays, compare two such structures with a tolerance for
floats, and hash them for the event log.  No PRNG, no clock, no id() anywhere here."""

import hashlib

import numpy as np

RTOL = 1e-9
ATOL = 1e-9


def _arr(a):
    a = np.asarray(a)
    if a.dtype == object:
        return ("objarr", tuple(canon(x) for x in a.ravel().tolist()))
    if a.dtype.kind in "iub":
        return ("nd", a.dtype.kind if a.dtype.kind == "b" else "i", a.shape, np.ascontiguousarray(a).astype(np.int64))
    if a.dtype.kind == "f":
        return ("nd", "f", a.shape, np.ascontiguousarray(a).astype(np.float64))
    if a.dtype.kind in "US":
        return ("nd", "s", a.shape, tuple(str(x) for x in a.ravel().tolist()))
    return ("nd", a.dtype.kind, a.shape, repr(a.tolist()))


def canon(obj, depth=0):
    """Canonical form of a returned value."""
    import xarray as xr

    if obj is None or isinstance(obj, (bool, str)):
        return obj
    if isinstance(obj, (int, np.integer)):
        return int(obj)
    if isinstance(obj, (float, np.floating)):
        return ("f", float(obj))
    if isinstance(obj, BaseException):
        return ("exc", type(obj).__name__)
    if isinstance(obj, xr.DataArray):
        return ("da", tuple(str(d) for d in obj.dims), _arr(obj.values))
    if isinstance(obj, xr.Dataset):
        return canon_dataset(obj)
    if isinstance(obj, np.ndarray):
        return _arr(obj)
    if isinstance(obj, (set, frozenset)):
        return ("set", tuple(sorted(canon(x) for x in obj)))
    if isinstance(obj, dict):
        return ("dict", tuple((str(k), canon(v)) for k, v in sorted(obj.items(), key=lambda kv: str(kv[0]))))
    if isinstance(obj, (list, tuple)):
        return ("seq", tuple(canon(x) for x in obj))
    tn = type(obj).__name__
    if tn == "Grid":
        return canon_grid(obj)
    if hasattr(obj, "compute") and hasattr(obj, "dtype"):  # dask array
        return _arr(obj.compute())
    return ("obj", tn)


TOPO_KEYS = (
    "cf_role",
    "topology_dimension",
    "node_dimension",
    "edge_dimension",
    "face_dimension",
    "node_coordinates",
    "edge_coordinates",
    "face_coordinates",
)


def canon_dataset(ds):
    vs = {}
    for name in sorted(map(str, ds.variables)):
        v = ds[name]
        if name == "grid_topology" or v.attrs.get("cf_role") == "mesh_topology":
            vs[name] = ("topology", tuple(sorted((str(k), str(x)) for k, x in v.attrs.items())))
        else:
            vs[name] = ("da", tuple(str(d) for d in v.dims), _arr(v.values))
    return ("ds", tuple(sorted(vs.items())), tuple(sorted((str(k), int(s)) for k, s in ds.sizes.items())))


def canon_grid(g):
    ds = g._ds
    out = {}
    # what the derived grid REPORTS (public properties: a Cartesian-only subset derives its
    # longitudes on demand), not which variables happen to be materialised
    for name in ("node_lon", "node_lat", "face_node_connectivity"):
        try:
            out[name] = _arr(getattr(g, name).values)
        except Exception as e:
            out[name] = ("exc", type(e).__name__)
    for name in ("subgrid_face_indices", "subgrid_node_indices", "subgrid_edge_indices"):
        if name in ds:
            out[name] = _arr(ds[name].values)
    return ("grid", str(g.source_grid_spec), tuple(sorted(out.items())))


# ----------------------------------------------------------------------------
def same(a, b, rtol=RTOL, atol=ATOL, path=""):
    """None if equal (floats to tolerance, NaN == NaN) else a short path-qualified reason."""
    if type(a) is not type(b):
        # ints vs bools etc.
        if isinstance(a, (int, bool)) and isinstance(b, (int, bool)) and a == b:
            return None
        return f"{path}: type {type(a).__name__} vs {type(b).__name__}"
    if isinstance(a, tuple):
        if len(a) and a[0] == "nd" and len(a) == 4 and len(b) == 4 and b[0] == "nd":
            if a[1] != b[1]:
                return f"{path}: dtype kind {a[1]} vs {b[1]}"
            if a[2] != b[2]:
                return f"{path}: shape {a[2]} vs {b[2]}"
            if a[1] == "f":
                x, y = a[3], b[3]
                nx, ny = np.isnan(x), np.isnan(y)
                if not np.array_equal(nx, ny):
                    return f"{path}: NaN pattern differs"
                if not np.allclose(x[~nx], y[~ny], rtol=rtol, atol=atol):
                    d = np.abs(x[~nx] - y[~ny])
                    return f"{path}: float values differ (max abs diff {d.max():.3g})"
                return None
            if a[1] in ("i", "b"):
                if not np.array_equal(a[3], b[3]):
                    n = int(np.sum(a[3] != b[3]))
                    return f"{path}: {n} integer entries differ"
                return None
            return None if a[3] == b[3] else f"{path}: values differ"
        if len(a) == 2 and a[0] == "f" and len(b) == 2 and b[0] == "f":
            x, y = a[1], b[1]
            if (x != x) and (y != y):
                return None
            if abs(x - y) <= atol + rtol * abs(y):
                return None
            return f"{path}: float {x!r} vs {y!r}"
        if len(a) != len(b):
            return f"{path}: length {len(a)} vs {len(b)}"
        for i, (x, y) in enumerate(zip(a, b)):
            r = same(x, y, rtol, atol, f"{path}/{i}" if not isinstance(x, str) else path)
            if r:
                return r
        return None
    if isinstance(a, np.ndarray):
        return None if np.array_equal(a, b) else f"{path}: arrays differ"
    if a != b:
        sa, sb = repr(a), repr(b)
        return f"{path}: {sa[:60]} vs {sb[:60]}"
    return None


def digest(c, h=None):
    """Stable SHA-256 of a canonical value (bitwise on floats)."""
    top = h is None
    if top:
        h = hashlib.sha256()
    if isinstance(c, tuple):
        h.update(b"(")
        for x in c:
            digest(x, h)
        h.update(b")")
    elif isinstance(c, np.ndarray):
        h.update(str(c.dtype).encode())
        h.update(str(c.shape).encode())
        h.update(np.ascontiguousarray(c).tobytes())
    else:
        h.update(repr(c).encode())
        h.update(b";")
    return h.hexdigest() if top else None


def brief(c, n=120):
    s = repr(c)
    return s if len(s) <= n else s[:n] + "..."
