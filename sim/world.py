"""World: sources and provenances, seams (simulated clock, simulated prange), pristine
module-state snapshot, abstract state of a grid.  Imported only inside a zygote (imports
uxarray)."""

import copy
import hashlib
import os
import shutil
import sys

import numpy as np

from . import model as M

REPO = os.environ.get("VERIF_REPO", "/repo")
MESHFILES = os.path.join(REPO, "test", "meshfiles")


# ----------------------------------------------------------------------------
# seams
# ----------------------------------------------------------------------------
class SimClock:
    """Stands in for ``datetime`` inside uxarray.io._exodus.  ``now()`` returns simulated time;
    the scheduler advances it."""

    import datetime as _dt

    _now = _dt.datetime(2024, 2, 28, 23, 59, 30)
    reads = 0
    span = 0.0

    @classmethod
    def reset(cls):
        cls._now = cls._dt.datetime(2024, 2, 28, 23, 59, 30)
        cls.reads = 0
        cls.span = 0.0

    @classmethod
    def now(cls, tz=None):
        cls.reads += 1
        return cls._now

    @classmethod
    def advance(cls, seconds):
        cls._now = cls._now + cls._dt.timedelta(seconds=seconds)
        cls.span += abs(seconds)


class SimPrange:
    """Simulated ``numba.prange`` for the JIT-off configuration: the iteration space is split
    into ``workers`` contiguous static chunks (as numba/OpenMP static scheduling does) and the
    chunks are interleaved by a seeded schedule; mode 'permuted' is the adversarial full
    permutation.  Iteration bodies are atomic steps."""

    workers = 1
    mode = "chunked"
    seed = 0
    calls = 0
    interleavings = set()

    @classmethod
    def configure(cls, workers=1, mode="chunked", seed=0):
        cls.workers, cls.mode, cls.seed = max(1, int(workers)), mode, int(seed)

    @classmethod
    def order(cls, n):
        import random

        rng = random.Random(cls.seed * 1000003 + n)
        if cls.mode == "permuted":
            idx = list(range(n))
            rng.shuffle(idx)
            return idx
        w = min(cls.workers, max(1, n))
        bounds = [round(i * n / w) for i in range(w + 1)]
        chunks = [list(range(bounds[i], bounds[i + 1])) for i in range(w)]
        out = []
        live = [c for c in chunks if c]
        while live:
            k = rng.randrange(len(live))
            out.append(live[k].pop(0))
            if not live[k]:
                live.pop(k)
        return out

    def __new__(cls, *args):
        if len(args) == 1:
            lo, hi = 0, int(args[0])
        else:
            lo, hi = int(args[0]), int(args[1])
        cls.calls += 1
        order = [lo + i for i in cls.order(hi - lo)]
        cls.interleavings.add(hashlib.sha1(repr(order).encode()).hexdigest()[:12])
        return iter(order)


def install_seams(jit):
    import uxarray.io._exodus as ex

    ex.datetime = SimClock
    if not jit:
        import uxarray.grid.intersections as ix

        ix.prange = SimPrange
    import dask

    dask.config.set(scheduler="synchronous")


# ----------------------------------------------------------------------------
# module-level state snapshot
# ----------------------------------------------------------------------------
STATE_MODULES = [
    "uxarray.conventions.ugrid", "uxarray.conventions.descriptors", "uxarray.constants",
    "uxarray.grid.geometry", "uxarray.core.aggregation",
]
# names re-exported into those modules that are not uxarray's own constants
STATE_SKIP = {"OPTIONS"}


def _containers():
    out = {}
    for mn in STATE_MODULES:
        mod = sys.modules.get(mn)
        if mod is None:
            continue
        for k, v in sorted(vars(mod).items()):
            if k.startswith("__") or k in STATE_SKIP:
                continue
            if isinstance(v, (dict, list, set, tuple, str, int, float, bool, np.generic, np.ndarray)) or v is None:
                out[f"{mn.split('uxarray.')[1]}.{k}"] = v
    return out


def _deep_repr(v):
    if isinstance(v, dict):
        return "{" + ",".join(f"{k!r}:{_deep_repr(x)}" for k, x in sorted(v.items(), key=lambda kv: repr(kv[0]))) + "}"
    if isinstance(v, (list, tuple)):
        return "[" + ",".join(_deep_repr(x) for x in v) + "]"
    if isinstance(v, set):
        return "{" + ",".join(sorted(_deep_repr(x) for x in v)) + "}"
    if isinstance(v, np.ndarray):
        return f"ndarray{v.shape}{hashlib.sha1(np.ascontiguousarray(v).tobytes()).hexdigest()[:10]}"
    return repr(v)


class ModuleState:
    """Pristine snapshot of every module-level container uxarray uses as a template, of
    numba.config.DISABLE_JIT and of xarray's OPTIONS."""

    def __init__(self):
        self.snap = {k: copy.deepcopy(v) for k, v in _containers().items()}
        self.reprs = {k: _deep_repr(v) for k, v in self.snap.items()}
        self.extra = self._extra()

    @staticmethod
    def _extra():
        import numba
        from xarray.core.options import OPTIONS

        return {"numba.DISABLE_JIT": repr(numba.config.DISABLE_JIT), "xarray.OPTIONS": _deep_repr(dict(OPTIONS))}

    def diff(self):
        """Names of containers that differ from pristine (sorted)."""
        bad = []
        cur = _containers()
        for k, r in self.reprs.items():
            if k not in cur or _deep_repr(cur[k]) != r:
                bad.append(k)
        for k in cur:
            if k not in self.reprs:
                bad.append(k)
        ex = self._extra()
        for k, r in self.extra.items():
            if ex[k] != r:
                bad.append(k)
        return sorted(bad)

    def describe(self, name):
        cur = _containers().get(name)
        was = self.snap.get(name)
        if isinstance(cur, dict) and isinstance(was, dict):
            added = sorted(set(cur) - set(was))
            removed = sorted(set(was) - set(cur))
            changed = sorted(k for k in set(cur) & set(was) if _deep_repr(cur[k]) != _deep_repr(was[k]))
            return f"added={added} removed={removed} changed={changed}"
        return f"{_deep_repr(was)[:80]} -> {_deep_repr(cur)[:80]}"

    def restore(self):
        cur = _containers()
        for k, was in self.snap.items():
            v = cur.get(k)
            if isinstance(v, dict):
                v.clear()
                v.update(copy.deepcopy(was))
            elif isinstance(v, list):
                v[:] = copy.deepcopy(was)
            elif isinstance(v, set):
                v.clear()
                v.update(was)
            elif isinstance(v, np.ndarray) and v.flags.writeable:
                v[...] = was


# ----------------------------------------------------------------------------
# sources
# ----------------------------------------------------------------------------
class Source:
    def __init__(self, spec, grid, model, inputs, gen_model):
        self.spec = spec
        self.grid = grid
        self.model = model  # aligned with the grid's own node/face numbering
        self.inputs = inputs  # objects the caller handed to the constructor
        self.gen_model = gen_model  # generator's mesh (None for repo files)
        # every variable the source shipped, copied at open time (pristine)
        self.shipped = {}
        for n in grid._ds.variables:
            try:
                self.shipped[str(n)] = np.array(grid._ds[n].values)
            except Exception:
                pass


def aligned_model(grid):
    """Mesh model in the grid's own numbering, read from the three primary variables without
    triggering any lazy population."""
    ds = grid._ds
    conn = np.array(ds["face_node_connectivity"].values)
    if conn.ndim == 1:
        conn = conn[None, :]
    if "node_lon" in ds and "node_lat" in ds:
        lon = np.array(ds["node_lon"].values, dtype=np.float64)
        lat = np.array(ds["node_lat"].values, dtype=np.float64)
    else:
        v = np.stack([ds["node_x"].values, ds["node_y"].values, ds["node_z"].values], axis=-1)
        lon, lat = M.lonlat_of(v)
    return M.mesh_from_arrays(lon, lat, conn)


DEFAULT_DIALECT = {"lon360": False, "fill": None, "start": 0, "dtype": "intp", "extra": [], "xyz_scale": 1.0, "centre_shift": 0.0, "edge_flip": False, "centre_lon360": False, "int_coords": False}


def _lon_out(lon, lon360):
    lon = np.array(lon, dtype=np.float64)
    if lon360:
        lon = np.where(lon < 0, lon + 360.0, lon)
    return lon


def topology_kwargs(mesh, dialect):
    """Arguments for Grid.from_topology built from the model mesh and a dialect."""
    d = dict(DEFAULT_DIALECT)
    d.update(dialect or {})
    dtype = {"intp": np.intp, "int32": np.int32, "int64": np.int64}[d["dtype"]]
    ragged = any(len(f) != mesh.n_max for f in mesh.faces)
    fill = d["fill"]
    if ragged and fill is None:
        fill = -1
    kw = {
        "node_lon": _lon_out(mesh.lon, d["lon360"]),
        "node_lat": np.array(mesh.lat, dtype=np.float64),
    }
    if d["int_coords"] and np.all(kw["node_lon"] == np.rint(kw["node_lon"])) and np.all(kw["node_lat"] == np.rint(kw["node_lat"])):
        # whole-degree coordinates typed as integers (np.arange-built grids)
        kw["node_lon"] = kw["node_lon"].astype(np.int64)
        kw["node_lat"] = kw["node_lat"].astype(np.int64)
    if fill is None:
        kw["face_node_connectivity"] = mesh.conn(fill=0, start=d["start"], dtype=dtype)
        kw["start_index"] = d["start"]
    else:
        kw["face_node_connectivity"] = mesh.conn(fill=fill, start=d["start"], dtype=dtype)
        kw["fill_value"] = fill
        kw["start_index"] = d["start"]
    if d.get("conn_order") == "F":
        # the memory layout of a table that was built transposed (n_max_face_nodes, n_face)
        kw["face_node_connectivity"] = np.asfortranarray(kw["face_node_connectivity"])
    sc = float(d["xyz_scale"])
    extra = d["extra"]
    if "node_xyz" in extra:
        p = mesh.xyz() * sc
        kw["node_x"], kw["node_y"], kw["node_z"] = p[:, 0].copy(), p[:, 1].copy(), p[:, 2].copy()
    shift = float(d.get("centre_shift", 0.0))
    if "face_lonlat" in extra or "face_xyz" in extra:
        c = mesh.face_centres()
        if shift:
            # a source's own idea of a cell centre need not be the corner mean
            first = mesh.xyz()[[f[0] for f in mesh.faces]]
            c = M.normalize((1.0 - shift) * c + shift * first)
        if "face_lonlat" in extra:
            lo, la = M.lonlat_of(c)
            kw["face_lon"], kw["face_lat"] = _lon_out(lo, d["lon360"] or d["centre_lon360"]), la
        if "face_xyz" in extra:
            kw["face_x"], kw["face_y"], kw["face_z"] = (c[:, 0] * sc).copy(), (c[:, 1] * sc).copy(), (c[:, 2] * sc).copy()
    if "edge_nodes" in extra or "edge_lonlat" in extra or "edge_xyz" in extra:
        pairs = mesh.edge_pairs()
        # a deterministic but non-sorted edge order, to be unlike np.unique's
        pairs = pairs[1::2] + pairs[0::2]
        en = np.array(pairs, dtype=dtype) + d["start"]
        if d["edge_flip"]:
            # a source's edge rows need not be (lower, higher): store every other row reversed
            en[::2] = en[::2, ::-1]
        kw["edge_node_connectivity"] = en
        c = mesh.edge_centres(pairs)
        if shift:
            first = mesh.xyz()[[a for a, b in pairs]]
            c = M.normalize((1.0 - shift) * c + shift * first)
        if "edge_lonlat" in extra:
            lo, la = M.lonlat_of(c)
            kw["edge_lon"], kw["edge_lat"] = _lon_out(lo, d["lon360"] or d["centre_lon360"]), la
        if "edge_xyz" in extra:
            kw["edge_x"], kw["edge_y"], kw["edge_z"] = (c[:, 0] * sc).copy(), (c[:, 1] * sc).copy(), (c[:, 2] * sc).copy()
    return kw


def ugrid_dataset(mesh, dialect):
    """A UGRID-conforming xarray.Dataset written by the harness (own names, own dialect)."""
    import xarray as xr

    d = dict(DEFAULT_DIALECT)
    d.update(dialect or {})
    dtype = {"intp": np.int64, "int32": np.int32, "int64": np.int64}[d["dtype"]]
    fill = d["fill"] if d["fill"] is not None else -1
    ds = xr.Dataset()
    ds["mesh"] = xr.DataArray(
        np.int32(0),
        attrs={
            "cf_role": "mesh_topology",
            "topology_dimension": 2,
            "node_coordinates": "Mesh_node_x Mesh_node_y",
            "face_node_connectivity": "Mesh_face_nodes",
            "face_dimension": "nMesh_face",
        },
    )
    ds["Mesh_node_x"] = xr.DataArray(_lon_out(mesh.lon, d["lon360"]), dims=["nMesh_node"], attrs={"units": "degrees_east"})
    ds["Mesh_node_y"] = xr.DataArray(np.array(mesh.lat), dims=["nMesh_node"], attrs={"units": "degrees_north"})
    ds["Mesh_face_nodes"] = xr.DataArray(
        mesh.conn(fill=fill, start=d["start"], dtype=dtype),
        dims=["nMesh_face", "nMaxMesh_face_nodes"],
        attrs={"cf_role": "face_node_connectivity", "start_index": np.int32(d["start"]), "_FillValue": dtype(fill)},
    )
    # a source that already uses the library's own index dtype and fill value (readers may then
    # keep the caller's array instead of converting it)
    std = bool(d.get("std_fill")) and dtype is np.int64 and d["start"] == 0
    if std:
        ds["Mesh_face_nodes"] = xr.DataArray(
            mesh.conn(fill=M.FILL, start=0, dtype=np.int64),
            dims=["nMesh_face", "nMaxMesh_face_nodes"],
            attrs={"cf_role": "face_node_connectivity", "start_index": np.int32(0), "_FillValue": np.int64(M.FILL)},
        )
    if d.get("ugrid_edges"):
        pairs = mesh.edge_pairs()
        pairs = pairs[1::2] + pairs[0::2]
        en = np.array(pairs, dtype=dtype) + d["start"]
        if d["edge_flip"]:
            en[::2] = en[::2, ::-1]
        ds["Mesh_edge_nodes"] = xr.DataArray(
            en,
            dims=["nMesh_edge", "Two"],
            attrs={"cf_role": "edge_node_connectivity", "start_index": np.int32(d["start"]), "_FillValue": np.int64(M.FILL) if std else dtype(fill)},
        )
        ds["mesh"].attrs["edge_node_connectivity"] = "Mesh_edge_nodes"
        ds["mesh"].attrs["edge_dimension"] = "nMesh_edge"
    if d.get("as_coords"):
        # node positions held as coordinate variables (what a CF `coordinates` attribute on a data
        # variable, or xr.Dataset(coords=...), produces)
        ds = ds.set_coords(["Mesh_node_x", "Mesh_node_y"])
    return ds


def esmf_dataset(mesh, dialect):
    """An ESMF unstructured-mesh dataset (ESMFMESH) describing the model mesh."""
    import xarray as xr

    d = dict(DEFAULT_DIALECT)
    d.update(dialect or {})
    lon = _lon_out(mesh.lon, d["lon360"])
    conn = mesh.conn(fill=-1, start=1, dtype=np.int32)
    if d.get("esmf_float"):
        conn = conn.astype(np.float64)
        conn[conn < 0] = np.nan  # what decoding a _FillValue leaves behind
    c = mesh.face_centres()
    clo, cla = M.lonlat_of(c)
    ds = xr.Dataset()
    ds["nodeCoords"] = xr.DataArray(np.stack([lon, np.array(mesh.lat)], axis=1), dims=["nodeCount", "coordDim"], attrs={"units": "degrees"})
    ds["elementConn"] = xr.DataArray(conn, dims=["elementCount", "maxNodePElement"], attrs={"long_name": "Node indices that define the element connectivity"})
    ds["numElementConn"] = xr.DataArray(np.array([len(f) for f in mesh.faces], dtype=np.int8), dims=["elementCount"])
    ds["centerCoords"] = xr.DataArray(np.stack([_lon_out(clo, d["lon360"]), cla], axis=1), dims=["elementCount", "coordDim"], attrs={"units": "degrees"})
    ds.attrs["gridType"] = "unstructured mesh"
    return ds


def vertices_array(mesh, xyz=False, scale=1.0):
    w = mesh.n_max
    if xyz:
        p = mesh.xyz() * float(scale)
        out = np.full((mesh.n_face, w, 3), float(M.FILL))
        for i, f in enumerate(mesh.faces):
            out[i, : len(f)] = p[f]
    else:
        out = np.full((mesh.n_face, w, 2), float(M.FILL))
        for i, f in enumerate(mesh.faces):
            out[i, : len(f), 0] = mesh.lon[f]
            out[i, : len(f), 1] = mesh.lat[f]
    return out


def open_source(spec, scratch=None):
    """Open a source fresh.  Returns Source."""
    import warnings

    import uxarray as ux
    import xarray as xr

    with warnings.catch_warnings():
        warnings.simplefilter("ignore")
        if spec["kind"] == "file":
            path = os.path.join(MESHFILES, spec["path"])
            if spec.get("twice"):
                # the caller keeps ONE opened dataset and builds grids from it more than once
                # (e.g. the dual first, then the mesh under test)
                ds0 = xr.open_dataset(path)
                try:
                    ux.Grid.from_dataset(ds0, use_dual=not bool(spec.get("use_dual", False)))
                except Exception:
                    ux.Grid.from_dataset(ds0)
                g = ux.Grid.from_dataset(ds0, use_dual=bool(spec.get("use_dual", False)))
            else:
                g = ux.open_grid(path, use_dual=bool(spec.get("use_dual", False)))
            g = derive_provenance(g, spec)
            return Source(spec, g, aligned_model(g), {"path": path}, None)
        mesh = M.build(spec["mesh"], spec.get("params"), spec.get("variant", 0), spec.get("jitter", 0.0))
        prov = spec.get("prov", "topology")
        dialect = spec.get("dialect") or {}
        inputs = {}
        if prov == "topology":
            kw = topology_kwargs(mesh, dialect)
            inputs = kw
            g = ux.Grid.from_topology(**kw)
        elif prov == "open_grid_dict":
            kw = topology_kwargs(mesh, dialect)
            inputs = kw
            g = ux.open_grid(kw)
        elif prov in ("vertices", "vertices_xyz"):
            arr = vertices_array(mesh, xyz=(prov == "vertices_xyz"), scale=(dialect.get("xyz_scale", 1.0) if prov == "vertices_xyz" else 1.0))
            if prov == "vertices_xyz" and dialect.get("int_xyz"):
                # whole-number Cartesian corners typed as integers (e.g. the cube (+-1, +-1, +-1))
                valid = arr != float(M.FILL)
                k = np.abs(arr[valid]).max()
                scaled = np.where(valid, arr / (np.abs(arr[valid]).min() if np.abs(arr[valid]).min() > 0 else 1.0), arr)
                if np.allclose(scaled[valid], np.rint(scaled[valid]), atol=1e-9):
                    arr = np.where(valid, np.rint(scaled), arr).astype(np.int64)
            inputs = {"face_vertices": arr}
            g = ux.Grid.from_face_vertices(arr, latlon=(prov == "vertices"))
        elif prov == "ugrid_mem":
            ds = ugrid_dataset(mesh, dialect)
            inputs = {"dataset": ds}
            if spec.get("twice"):
                ux.Grid.from_dataset(ds)
            g = ux.Grid.from_dataset(ds)
        elif prov == "esmf_mem":
            ds = esmf_dataset(mesh, dialect)
            inputs = {"dataset": ds}
            g = ux.Grid.from_dataset(ds)
        elif prov == "raw_ds":
            # a dataset already in uxarray's naming, handed over without a source specification
            lon = _lon_out(mesh.lon, dialect.get("lon360", False))
            ds = xr.Dataset(
                {
                    "node_lon": ("n_node", lon, {"units": "degrees_east"}),
                    "node_lat": ("n_node", np.array(mesh.lat), {"units": "degrees_north"}),
                    "face_node_connectivity": (("n_face", "n_max_face_nodes"), mesh.conn(), {"cf_role": "face_node_connectivity", "_FillValue": M.FILL, "start_index": 0}),
                }
            )
            inputs = {"dataset": ds}
            g = ux.Grid.from_dataset(ds, source_grid_spec=dialect.get("spec"))
        elif prov == "ugrid_mem_chunked":
            # the caller's dataset is dask-backed before the grid is built
            ds = ugrid_dataset(mesh, dialect).chunk()
            inputs = {"dataset": ds}
            g = ux.Grid.from_dataset(ds)
        elif prov == "ugrid_file":
            ds = ugrid_dataset(mesh, dialect)
            assert scratch, "ugrid_file provenance needs a scratch dir"
            os.makedirs(scratch, exist_ok=True)
            h = hashlib.sha1(repr(sorted(spec.items(), key=str)).encode()).hexdigest()[:10]
            path = os.path.join(scratch, f"src-{h}.nc")
            if not os.path.exists(path):
                ds.to_netcdf(path)
            inputs = {"path": path}
            g = ux.open_grid(path, chunks={}) if dialect.get("chunks") else ux.open_grid(path)
        else:
            raise ValueError(f"unknown provenance {prov}")
        # the grid must describe the faces it was given (face order kept, corner positions in
        # cyclic order): every model-based oracle below starts from that
        try:
            am = aligned_model(g)
            why = M.faces_match(mesh, am.lon, am.lat, am.conn(), tol=1e-9, ordered=True)
        except Exception as e:
            why = f"{type(e).__name__}: {str(e)[:120]}"
        if why:
            raise ProvenanceFailure("decode", ValueError(f"the grid built by {prov} does not have the faces handed to it: {why}"))
        g = derive_provenance(g, spec)
        return Source(spec, g, aligned_model(g), inputs, mesh)


class ProvenanceFailure(Exception):
    """A public call of the provenance pipeline (encode, reopen, isel) failed: attributable to the
    library, not to the harness."""

    def __init__(self, stage, exc):
        super().__init__(f"{stage}: {type(exc).__name__}: {str(exc)[:200]}")
        self.stage = stage
        self.exc_type = type(exc).__name__


def derive_provenance(g, spec):
    """Optional further provenance of the grid under test: a SECOND-GENERATION grid (opened from
    the UGRID encoding of a grid on which some quantities had been derived) and/or a SUBSET of it
    (Grid.isel).  Both are ordinary grids as far as every property is concerned."""
    import uxarray as ux

    re = spec.get("reencode")
    if re is not None:
        for nm in re:
            try:
                getattr(g, nm)
            except Exception:
                pass
        try:
            g = ux.open_grid(g.to_xarray("ugrid"))
        except Exception as e:
            raise ProvenanceFailure("reencode", e)
    sub = spec.get("subset")
    if sub:
        n = g.n_face
        idx, seen = [], set()
        for x in sub:
            if x % n not in seen:
                seen.add(x % n)
                idx.append(x % n)
        try:
            g = g.isel(n_face=idx)
        except Exception as e:
            raise ProvenanceFailure("subset", e)
    return g


# ----------------------------------------------------------------------------
# abstract state of a grid (read without triggering lazy population)
# ----------------------------------------------------------------------------
def abstract_state(g):
    ds = g._ds
    names = tuple(sorted(str(n) for n in ds.variables))
    trees = []
    for attr in ("_ball_tree", "_kd_tree"):
        t = getattr(g, attr, None)
        if t is None:
            trees.append(None)
        else:
            built = tuple(
                k for k in ("nodes", "face_centers", "edge_centers") if getattr(t, f"_tree_from_{k}", None) is not None
            )
            trees.append((t._coordinates, t.coordinate_system, t.distance_metric, built))
    caches = []
    for attr, key in (
        ("_gdf_cached_parameters", "gdf"),
        ("_poly_collection_cached_parameters", "poly_collection"),
        ("_line_collection_cached_parameters", "line_collection"),
    ):
        c = getattr(g, attr, None) or {}
        if c.get(key) is None:
            caches.append(None)
        else:
            caches.append((c.get("periodic_elements"), type(c.get("projection")).__name__, c.get("engine")))
    dask = tuple(sorted(str(n) for n in ds.variables if hasattr(ds[n].data, "dask")))
    flags = (
        getattr(g, "_antimeridian_face_indices", None) is not None,
        hasattr(g, "_face_areas"),
        getattr(g, "_normalized", None),
    )
    return (names, tuple(trees), tuple(caches), bool(dask), flags)


def state_id(st):
    return hashlib.sha1(repr(st).encode()).hexdigest()[:12]


def make_scratch(base):
    d = os.path.join(base, f"run-{os.getpid()}")
    os.makedirs(d, exist_ok=True)
    return d


def rm_scratch(d):
    shutil.rmtree(d, ignore_errors=True)


# ----------------------------------------------------------------------------
# element positions as the oracle sees them (independent of the grid's lazy derivations)
# ----------------------------------------------------------------------------
def element_lonlat(src, kind, grid=None):
    """(lon_deg, lat_deg, xyz_unit) of the elements of ``kind`` ('nodes' | 'face centers' |
    'edge centers').  Source-supplied centres are taken as shipped; otherwise centres are the
    normalised mean of the corner unit vectors.  Edge ORDER is taken from the shipped table, else
    from the grid's own edge_node_connectivity when a grid is given (order is C02's business),
    else from the model."""
    m = src.model
    sh = src.shipped
    if kind == "nodes":
        return m.lon.copy(), m.lat.copy(), m.xyz()
    if kind == "face centers":
        if "face_lon" in sh and "face_lat" in sh:
            lon, lat = sh["face_lon"].astype(float), sh["face_lat"].astype(float)
            return lon, lat, M.unit(lon, lat)
        if "face_x" in sh:
            v = M.normalize(np.stack([sh["face_x"], sh["face_y"], sh["face_z"]], axis=-1))
        else:
            v = m.face_centres()
        lon, lat = M.lonlat_of(v)
        return lon, lat, v
    if kind == "edge centers":
        if "edge_lon" in sh and "edge_lat" in sh:
            lon, lat = sh["edge_lon"].astype(float), sh["edge_lat"].astype(float)
            return lon, lat, M.unit(lon, lat)
        if "edge_x" in sh:
            v = M.normalize(np.stack([sh["edge_x"], sh["edge_y"], sh["edge_z"]], axis=-1))
        else:
            if "edge_node_connectivity" in sh:
                pairs = [tuple(map(int, r)) for r in sh["edge_node_connectivity"]]
            elif grid is not None and "edge_node_connectivity" in grid._ds:
                pairs = [tuple(map(int, r)) for r in np.asarray(grid._ds["edge_node_connectivity"].values)]
            else:
                pairs = m.edge_pairs()
            v = m.edge_centres(pairs)
        lon, lat = M.lonlat_of(v)
        return lon, lat, v
    raise ValueError(kind)
