"""Base class of a profile: the generic simulated run (world, event log, coverage accounting)."""

import hashlib
import json
import os
import warnings

from . import canon as C


def V(signature, step, detail):
    return {"signature": signature, "step": step, "detail": str(detail)[:600]}


class World:
    """Everything a run holds: sources opened lazily, objects the library returned to the
    caller, coverage counters.  Handles: g0.. grids, x0.. returned objects."""

    def __init__(self, trace, env):
        self.trace = trace
        self.env = env
        self.jit = env["jit"]
        self.src = {}  # handle -> Source
        self.objs = {}
        self.cov = {
            "perturbations": {},
            "judged": 0,
            "failed_ops": 0,
            "op_classes": {},
            "par": {},
            "nontrivial": False,
        }
        self._scratch = None
        self.notes = []

    @property
    def scratch(self):
        if self._scratch is None:
            from . import world as Wd

            self._scratch = Wd.make_scratch(self.env["scratch"])
        return self._scratch

    def source(self, h):
        if h not in self.src:
            from . import world as Wd

            self.src[h] = Wd.open_source(self.trace["sources"][h], self.scratch)
            self.fire("open")
        return self.src[h]

    def grid(self, h):
        return self.source(h).grid

    def model(self, h):
        return self.source(h).model

    def fire(self, kind, n=1):
        p = self.cov["perturbations"]
        p[kind] = p.get(kind, 0) + n

    def abstract(self):
        from . import world as Wd

        return tuple((h, Wd.state_id(Wd.abstract_state(s.grid))) for h, s in sorted(self.src.items()))


class Profile:
    name = ""
    prop = ""

    def gen_cfg(self, tier, jit):
        return {"tier": tier, "jit": bool(jit)}

    def prepare(self, zy):
        pass

    def generate(self, rng, cfg):
        raise NotImplementedError

    def simplify(self, op):
        return []

    def simplify_sources(self, sources):
        return []

    def begin(self, W):
        pass

    def step(self, W, i, op):
        raise NotImplementedError

    def finish(self, W):
        return []

    def op_class(self, op):
        return op["op"]

    def abstract(self, W):
        """Abstract state of the world (coverage measure); profiles that keep their own parties
        (W.parties: handle -> grid) are covered too."""
        from . import world as Wd

        extra = tuple((h, Wd.state_id(Wd.abstract_state(g))) for h, g in sorted(getattr(W, "parties", {}).items()))
        return W.abstract() + extra

    def source_class(self, spec):
        if spec.get("kind") == "file":
            return "file:" + spec["path"] + (":dual" if spec.get("use_dual") else "")
        d = spec.get("dialect") or {}
        tag = ("+reenc" if spec.get("reencode") is not None else "") + ("+subset" if spec.get("subset") else "")
        return f"{spec['mesh']}/{spec.get('prov', 'topology')}/{','.join(sorted(d.get('extra', [])))}{tag}"

    # ------------------------------------------------------------------
    def execute(self, trace, env):
        from . import world as Wd

        warnings.simplefilter("ignore")
        Wd.SimClock.reset()
        Wd.SimPrange.calls = 0
        Wd.SimPrange.interleavings = set()
        Wd.SimPrange.configure(1, "chunked", 0)
        W = World(trace, env)
        W.cov["avoid"] = bool(trace.get("avoid"))
        log = hashlib.sha256()
        states, transitions = set(), set()
        fp_trans = []
        viols = []
        n = 0
        self.begin(W)
        for i, op in enumerate(trace["ops"]):
            before = self.abstract(W)
            try:
                out, vs = self.step(W, i, op)
            except Wd.ProvenanceFailure as pf:
                out = ("exc", pf.exc_type)
                vs = [V(f"{self.prop}/provenance[{pf.stage}]/exception({pf.exc_type})", i, f"building the grid under test through public calls failed at {pf}")]
            n += 1
            cls = self.op_class(op)
            W.cov["op_classes"][cls] = W.cov["op_classes"].get(cls, 0) + 1
            log.update(json.dumps(op, sort_keys=True).encode())
            log.update(C.digest(out).encode())
            after = self.abstract(W)
            sb = hashlib.sha1(repr(before).encode()).hexdigest()[:10]
            sa = hashlib.sha1(repr(after).encode()).hexdigest()[:10]
            states.add(sa)
            transitions.add((sb, cls))
            fp_trans.append((sb, cls))
            if vs:
                viols = vs
                break
        if not viols:
            viols = self.finish(W) or []
        cov = W.cov
        cov["states"] = sorted(states)
        cov["transitions"] = sorted(transitions)
        srcs = sorted(self.source_class(s) for h, s in trace["sources"].items() if h in W.src or h in getattr(W, "parties", {}))
        cov["fingerprint"] = hashlib.sha1(repr((srcs, sorted(fp_trans))).encode()).hexdigest()[:16]
        cov["clock"] = {"reads": Wd.SimClock.reads, "span_s": Wd.SimClock.span}
        cov["interleavings"] = sorted(Wd.SimPrange.interleavings)
        if W._scratch:
            Wd.rm_scratch(W._scratch)
        return {
            "digest": log.hexdigest(),
            "n_steps": n,
            "violations": viols,
            "cov": cov,
            "notes": W.notes[:5],
        }
