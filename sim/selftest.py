"""Self-tests of the machinery.

determinism: the same (VERIF_SEED, index) executed in two different zygotes - PYTHONHASHSEED 0 with
16 concurrent children vs PYTHONHASHSEED 4242 with 2 concurrent children - and twice inside one zygote
must give the same run digest (SHA-256 over every op and every canonical outcome)."""
import json
import os
import sys

from . import engine as E


def _digests(prop, indices, base_seed, jit, hashseed, workers, twice=False):
    idx = list(indices) + (list(indices) if twice else [])
    z = E.spawn_zygote({"property": prop, "mode": "seeds", "tier": "quick", "base_seed": base_seed, "indices": idx, "workers": workers, "run_timeout": 300}, jit, hashseed)
    recs = E.collect(z, 3600)
    err = [r for r in recs if r.get("type") == "zygote_error"]
    if err or z["rc"] != 0:
        print("HARNESS-ERROR", (err[0]["error"] if err else open(z["log"]).read()[-2000:]))
        E.cleanup_jobfiles(z)
        return None
    E.cleanup_jobfiles(z)
    out = {}
    for r in recs:
        if r.get("type") == "run":
            out.setdefault(r["index"], []).append((r.get("digest"), r.get("harness_error")))
    return out


def main(which, prop, n, base_seed):
    if which != "determinism":
        print("unknown selftest", which)
        return 2
    props = [prop] if prop else sorted(E.PROFILES)
    rc = 0
    for p in props:
        for jit, count in ((False, n), (True, max(8, n // 5))):
            indices = [2 * k + (1 if jit else 0) for k in range(count)]
            a = _digests(p, indices, base_seed, jit, 0, 16, twice=True)
            b = _digests(p, indices, base_seed, jit, 4242, 2)
            if a is None or b is None:
                rc = 2
                continue
            bad = []
            herr = 0
            for i in indices:
                da = a.get(i, [])
                db = b.get(i, [])
                ds = {d for d, e in da + db}
                herr += sum(1 for d, e in da + db if e)
                if len(da) != 2 or len(db) != 1 or len(ds) != 1 or None in ds:
                    bad.append((i, da, db))
            print(f"determinism {p} jit={'on' if jit else 'off'}: {len(indices)} seeds x 3 executions (2 zygotes, hashseed 0/4242, 16/2 workers): {len(bad)} divergent, {herr} harness errors")
            for x in bad[:5]:
                print("   DIVERGENT", x)
            if bad:
                rc = 1
    return rc
