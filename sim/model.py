"""Mesh model: the small reference model the oracles are computed from.

Pure NumPy / math.  Nothing in this file imports uxarray.  A mesh is a list of
faces (each a list of node ids in cyclic order) plus node lon/lat in degrees.
Every generator is a pure function of its parameters (a private
``random.Random(variant)`` supplies jitter and renumbering), so a replay file
only has to store the parameters.
"""

import math
import random

import numpy as np

FILL = np.iinfo(np.intp).min


# ----------------------------------------------------------------------------
# geometry helpers (independent of uxarray)
# ----------------------------------------------------------------------------
def wrap180(lon):
    lon = np.asarray(lon, dtype=np.float64)
    out = (lon + 180.0) % 360.0 - 180.0
    return out


def unit(lon_deg, lat_deg):
    lon = np.deg2rad(np.asarray(lon_deg, dtype=np.float64))
    lat = np.deg2rad(np.asarray(lat_deg, dtype=np.float64))
    return np.stack(
        [np.cos(lon) * np.cos(lat), np.sin(lon) * np.cos(lat), np.sin(lat)], axis=-1
    )


def normalize(v):
    v = np.asarray(v, dtype=np.float64)
    n = np.linalg.norm(v, axis=-1, keepdims=True)
    return v / n


def lonlat_of(v):
    v = normalize(v)
    lon = np.rad2deg(np.arctan2(v[..., 1], v[..., 0]))
    lat = np.rad2deg(np.arcsin(np.clip(v[..., 2], -1.0, 1.0)))
    return lon, lat


def angle_between(a, b):
    """Angle (rad) between unit-ish vectors, accurate for small angles."""
    a = normalize(a)
    b = normalize(b)
    c = np.linalg.norm(np.cross(a, b), axis=-1)
    d = np.sum(a * b, axis=-1)
    return np.arctan2(c, d)


def gc_dist(p, q):
    """Great-circle distance (rad) between unit vectors."""
    return angle_between(p, q)


def chord(p, q):
    return np.linalg.norm(np.asarray(p) - np.asarray(q), axis=-1)


# ----------------------------------------------------------------------------
# Mesh
# ----------------------------------------------------------------------------
class Mesh:
    def __init__(self, lon, lat, faces, name="", closed=False, wrap=True):
        lon = np.asarray(lon, dtype=np.float64)
        # generators wrap into [-180, 180); a model read back from a grid keeps the stored values
        self.lon = wrap180(lon) if wrap else lon.copy()
        self.lat = np.asarray(lat, dtype=np.float64)
        self.faces = [list(map(int, f)) for f in faces]
        self.name = name
        self.closed = closed

    # sizes
    @property
    def n_node(self):
        return len(self.lon)

    @property
    def n_face(self):
        return len(self.faces)

    @property
    def n_max(self):
        return max(len(f) for f in self.faces)

    def xyz(self):
        return unit(self.lon, self.lat)

    def conn(self, fill=FILL, start=0, width=None, dtype=np.intp):
        w = width or self.n_max
        out = np.full((self.n_face, w), fill, dtype=dtype)
        for i, f in enumerate(self.faces):
            out[i, : len(f)] = np.asarray(f) + start
        return out

    def edge_pairs(self):
        """Sorted list of unordered node pairs that are face boundary segments."""
        s = set()
        for f in self.faces:
            k = len(f)
            for j in range(k):
                a, b = f[j], f[(j + 1) % k]
                s.add((min(a, b), max(a, b)))
        return sorted(s)

    @property
    def n_edge(self):
        return len(self.edge_pairs())

    def face_edges(self):
        """For each face the list of unordered node pairs, corner j -> j+1."""
        out = []
        for f in self.faces:
            k = len(f)
            out.append(
                [(min(f[j], f[(j + 1) % k]), max(f[j], f[(j + 1) % k])) for j in range(k)]
            )
        return out

    def edge_faces(self):
        d = {}
        for fi, fe in enumerate(self.face_edges()):
            for e in fe:
                d.setdefault(e, []).append(fi)
        return d

    def node_faces(self):
        d = {n: [] for n in range(self.n_node)}
        for fi, f in enumerate(self.faces):
            for n in f:
                d[n].append(fi)
        return d

    def face_centres(self):
        p = self.xyz()
        return normalize(np.array([p[f].mean(axis=0) for f in self.faces]))

    def edge_centres(self, pairs=None):
        p = self.xyz()
        pairs = pairs if pairs is not None else self.edge_pairs()
        return normalize(np.array([(p[a] + p[b]) / 2.0 for a, b in pairs]))

    def face_corner_xyz(self, fi):
        return self.xyz()[self.faces[fi]]

    def antimeridian_faces(self, margin=0.0):
        """Faces having an edge spanning >= 180 deg of longitude.  With margin>0 returns
        (sure, unsure): faces whose largest |dlon| is within ``margin`` of 180 are unsure."""
        sure, unsure = [], []
        for fi, f in enumerate(self.faces):
            k = len(f)
            m = max(abs(self.lon[f[j]] - self.lon[f[(j + 1) % k]]) for j in range(k))
            if abs(m - 180.0) <= margin:
                unsure.append(fi)
            elif m >= 180.0:
                sure.append(fi)
        return (sure, unsure) if margin > 0 else sure

    def to_json(self):
        return {
            "lon": [float(x) for x in self.lon],
            "lat": [float(x) for x in self.lat],
            "faces": self.faces,
        }


# ----------------------------------------------------------------------------
# orientation
# ----------------------------------------------------------------------------
def _orient_ccw(lon, lat, faces):
    p = unit(lon, lat)
    out = []
    for f in faces:
        q = p[f]
        c = q.mean(axis=0)
        s = 0.0
        for j in range(len(f)):
            s += np.dot(np.cross(q[j], q[(j + 1) % len(f)]), c)
        out.append(list(f) if s >= 0 else list(reversed(f)))
    return out


# ----------------------------------------------------------------------------
# generators (each returns Mesh; pure functions of their parameters)
# ----------------------------------------------------------------------------
def gen_band(nx=8, ny=3, lon0=-170.0, lat0=-40.0, lat1=50.0):
    """Periodic (all-around) band of quads: crosses the antimeridian, partial."""
    lon, lat = [], []
    for j in range(ny + 1):
        for i in range(nx):
            lon.append(lon0 + i * 360.0 / nx)
            lat.append(lat0 + (lat1 - lat0) * j / ny)
    faces = []
    for j in range(ny):
        for i in range(nx):
            a = j * nx + i
            b = j * nx + (i + 1) % nx
            c = (j + 1) * nx + (i + 1) % nx
            d = (j + 1) * nx + i
            faces.append([a, b, c, d])
    return Mesh(lon, lat, faces, "band")


def gen_patch(nx=4, ny=3, lon0=150.0, lon1=200.0, lat0=-20.0, lat1=25.0, tri=0):
    """Rectangular lat-lon patch of quads; ``tri`` quads (chosen deterministically) are
    split into two triangles.  lon1 > 180 makes it straddle the antimeridian."""
    lon, lat = [], []
    for j in range(ny + 1):
        for i in range(nx + 1):
            lon.append(lon0 + (lon1 - lon0) * i / nx)
            lat.append(lat0 + (lat1 - lat0) * j / ny)
    faces = []
    q = 0
    for j in range(ny):
        for i in range(nx):
            a = j * (nx + 1) + i
            b = a + 1
            c = b + (nx + 1)
            d = a + (nx + 1)
            if tri and (q * 7 + 3) % (nx * ny) < tri:
                faces.append([a, b, c])
                faces.append([a, c, d])
            else:
                faces.append([a, b, c, d])
            q += 1
    return Mesh(lon, lat, faces, "patch")


def gen_mix(lon_c=20.0, lat_c=10.0, s=6.0):
    """One hexagon with two quads, two triangles and a pentagon attached: 6 faces of four
    different sizes, partial, every padding layout 0..3."""
    pts = []
    for k in range(6):
        a = math.radians(60 * k)
        pts.append((math.cos(a), math.sin(a)))

    def outward(k, d):
        # midpoint normal of hex edge k -> k+1
        a = math.radians(60 * k + 30)
        return (math.cos(a) * d, math.sin(a) * d)

    faces = [[0, 1, 2, 3, 4, 5]]
    # quad on edge 0-1
    o = outward(0, 0.9)
    pts += [(pts[1][0] + o[0], pts[1][1] + o[1]), (pts[0][0] + o[0], pts[0][1] + o[1])]
    faces.append([1, 0, 7, 6][::-1])
    # triangle on edge 1-2
    o = outward(1, 1.6)
    pts.append(o)
    faces.append([2, 1, 8][::-1])
    # pentagon on edge 2-3
    o = outward(2, 0.8)
    o2 = outward(2, 1.7)
    pts += [
        (pts[3][0] + o[0], pts[3][1] + o[1]),
        o2,
        (pts[2][0] + o[0], pts[2][1] + o[1]),
    ]
    faces.append([3, 2, 11, 10, 9][::-1])
    # quad on edge 3-4
    o = outward(3, 0.9)
    pts += [(pts[4][0] + o[0], pts[4][1] + o[1]), (pts[3][0] + o[0], pts[3][1] + o[1])]
    faces.append([4, 3, 13, 12][::-1])
    # triangle on edge 4-5
    o = outward(4, 1.6)
    pts.append(o)
    faces.append([5, 4, 14][::-1])
    lon = [lon_c + s * x / max(0.2, math.cos(math.radians(lat_c))) for x, y in pts]
    lat = [lat_c + s * y for x, y in pts]
    faces = _orient_ccw(lon, lat, faces)
    return Mesh(lon, lat, faces, "mix")


def gen_cube(n=2):
    """Equiangular cube-sphere, n x n quads per panel: closed."""
    ang = [(-1 + 2 * i / n) * math.pi / 4 for i in range(n + 1)]
    t = [math.tan(a) for a in ang]
    key2id = {}
    pts = []

    def nid(v):
        v = np.asarray(v, dtype=np.float64)
        v = v / np.linalg.norm(v)
        k = tuple(np.round(v, 9) + 0.0)
        if k not in key2id:
            key2id[k] = len(pts)
            pts.append(v)
        return key2id[k]

    panels = [
        lambda a, b: (1, a, b),
        lambda a, b: (-a, 1, b),
        lambda a, b: (-1, -a, b),
        lambda a, b: (a, -1, b),
        lambda a, b: (-b, a, 1),
        lambda a, b: (b, a, -1),
    ]
    faces = []
    for P in panels:
        for j in range(n):
            for i in range(n):
                faces.append(
                    [
                        nid(P(t[i], t[j])),
                        nid(P(t[i + 1], t[j])),
                        nid(P(t[i + 1], t[j + 1])),
                        nid(P(t[i], t[j + 1])),
                    ]
                )
    pts = np.array(pts)
    lon, lat = lonlat_of(pts)
    faces = _orient_ccw(lon, lat, faces)
    return Mesh(lon, lat, faces, "cube", closed=True)


def gen_ico(sub=0):
    """Icosahedron (sub=0: 20 faces) or one subdivision (sub=1: 80 faces); rotated a little so
    that no node is at a pole or on the antimeridian."""
    phi = (1 + 5**0.5) / 2
    v = []
    for a in (-1, 1):
        for b in (-phi, phi):
            v += [(0, a, b), (a, b, 0), (b, 0, a)]
    v = normalize(np.array(v, dtype=np.float64))
    # faces = triples of mutually nearest vertices
    n = len(v)
    d = np.linalg.norm(v[:, None, :] - v[None, :, :], axis=-1)
    e = d.min(initial=10, where=d > 1e-9)
    adj = (abs(d - e) < 1e-6)
    faces = []
    for i in range(n):
        for j in range(i + 1, n):
            if not adj[i, j]:
                continue
            for k in range(j + 1, n):
                if adj[i, k] and adj[j, k]:
                    faces.append([i, j, k])
    pts = [p for p in v]
    for _ in range(sub):
        mid = {}
        new = []

        def m(a, b):
            key = (min(a, b), max(a, b))
            if key not in mid:
                mid[key] = len(pts)
                pts.append(normalize(pts[a] + pts[b]))
            return mid[key]

        for a, b, c in faces:
            ab, bc, ca = m(a, b), m(b, c), m(c, a)
            new += [[a, ab, ca], [b, bc, ab], [c, ca, bc], [ab, bc, ca]]
        faces = new
    pts = np.array(pts)
    # fixed rotation
    ax, ay = 0.31, 0.17
    Rx = np.array([[1, 0, 0], [0, math.cos(ax), -math.sin(ax)], [0, math.sin(ax), math.cos(ax)]])
    Ry = np.array([[math.cos(ay), 0, math.sin(ay)], [0, 1, 0], [-math.sin(ay), 0, math.cos(ay)]])
    pts = pts @ Rx.T @ Ry.T
    lon, lat = lonlat_of(pts)
    faces = _orient_ccw(lon, lat, faces)
    return Mesh(lon, lat, faces, "ico", closed=True)


def gen_cap(n=6, south_face=True, ring_lats=(78.0, 64.0)):
    """Polar cap: node exactly at the north pole, a fan of n triangles, a ring of n quads;
    optionally one n-gon enclosing the south pole (pole strictly inside the face)."""
    lon = [0.0]
    lat = [90.0]
    for r, la in enumerate(ring_lats):
        for i in range(n):
            lon.append(-180.0 + 360.0 * (i + 0.5 * r + 0.25) / n)
            lat.append(la)
    faces = []
    for i in range(n):
        faces.append([0, 1 + i, 1 + (i + 1) % n])
    for i in range(n):
        a, b = 1 + i, 1 + (i + 1) % n
        c, d = 1 + n + i, 1 + n + (i + 1) % n
        faces.append([a, c, d, b] if True else [a, b, d, c])
    if south_face:
        base = len(lon)
        for i in range(n):
            lon.append(-180.0 + 360.0 * (i + 0.4) / n)
            lat.append(-75.0 - (2.0 if i % 2 else 0.0))
        faces.append([base + i for i in range(n)])
    faces = _orient_ccw(lon, lat, faces)
    return Mesh(lon, lat, faces, "cap")


def gen_two():
    """Two disjoint patches (an isolated triangle far from a small mixed patch)."""
    a = gen_mix(lon_c=-60.0, lat_c=-15.0, s=5.0)
    lon = list(a.lon) + [100.0, 110.0, 104.0]
    lat = list(a.lat) + [40.0, 41.0, 49.0]
    faces = a.faces + [[a.n_node, a.n_node + 1, a.n_node + 2]]
    faces = _orient_ccw(lon, lat, faces)
    return Mesh(lon, lat, faces, "two")


def gen_rll(nx=6, ny=4, lon0=-180.0):
    """Regular lat-lon grid reaching both poles: every pole row has nx DISTINCT nodes at the pole
    (one per longitude, as lat-lon files have), so the polar cells are quads with a collapsed edge."""
    lon, lat = [], []
    for j in range(ny + 1):
        for i in range(nx):
            lon.append(lon0 + i * 360.0 / nx)
            lat.append(-90.0 + 180.0 * j / ny)
    faces = []
    for j in range(ny):
        for i in range(nx):
            a = j * nx + i
            b = j * nx + (i + 1) % nx
            faces.append([a, b, (j + 1) * nx + (i + 1) % nx, (j + 1) * nx + i])
    return Mesh(lon, lat, faces, "rll", closed=True)


GENERATORS = {
    "rll": gen_rll,
    "band": gen_band,
    "patch": gen_patch,
    "mix": gen_mix,
    "cube": gen_cube,
    "ico": gen_ico,
    "cap": gen_cap,
    "two": gen_two,
}


def perturb(mesh, variant=0, jitter=0.0, renumber=True, rotate=True):
    """Seeded jitter of node positions (poles and |lat|>85 untouched), random renumbering of
    nodes and faces, random start corner per face.  variant=0 -> identity."""
    if variant == 0:
        return mesh
    rng = random.Random(variant * 7919 + 13)
    lon = mesh.lon.copy()
    lat = mesh.lat.copy()
    if jitter > 0:
        for i in range(mesh.n_node):
            if abs(lat[i]) < 85.0:
                lon[i] += rng.uniform(-jitter, jitter)
                lat[i] += rng.uniform(-jitter, jitter)
    faces = [list(f) for f in mesh.faces]
    if renumber:
        perm = list(range(mesh.n_node))
        rng.shuffle(perm)  # old -> new
        nl = np.empty_like(lon)
        na = np.empty_like(lat)
        for old, new in enumerate(perm):
            nl[new] = lon[old]
            na[new] = lat[old]
        lon, lat = nl, na
        faces = [[perm[n] for n in f] for f in faces]
        rng.shuffle(faces)
    if rotate:
        faces = [f[k:] + f[:k] for f in faces for k in [rng.randrange(len(f))]]
    return Mesh(lon, lat, faces, mesh.name, mesh.closed)


def build(name, params=None, variant=0, jitter=0.0):
    m = GENERATORS[name](**(params or {}))
    return perturb(m, variant, jitter)


def mesh_from_arrays(lon, lat, conn, fill=FILL):
    faces = []
    for row in np.asarray(conn):
        faces.append([int(n) for n in row if n != fill])
    return Mesh(np.asarray(lon, dtype=np.float64), np.asarray(lat, dtype=np.float64), faces, "file", wrap=False)


# ----------------------------------------------------------------------------
# comparison of a face list with the model, by position
# ----------------------------------------------------------------------------
def cyclic_equal(a, b, tol):
    """a, b: (k,3) arrays of unit vectors.  True iff equal up to cyclic rotation."""
    if len(a) != len(b):
        return False
    k = len(a)
    for s in range(k):
        if np.all(angle_between(a, np.roll(b, -s, axis=0)) <= tol):
            return True
    return False


def faces_match(model, lon, lat, conn, fill=FILL, tol=1e-9, ordered=True):
    """Compare a decoded (lon, lat, conn) with the model mesh face by face, by position, up to
    cyclic rotation.  Returns None when it matches else a short description."""
    got = mesh_from_arrays(lon, lat, conn, fill)
    if got.n_face != model.n_face:
        return f"n_face {got.n_face} != {model.n_face}"
    gp, mp = got.xyz(), model.xyz()
    if ordered:
        for i in range(model.n_face):
            if not cyclic_equal(mp[model.faces[i]], gp[got.faces[i]], tol):
                return f"face {i} differs"
        return None
    used = [False] * got.n_face
    for i in range(model.n_face):
        a = mp[model.faces[i]]
        hit = False
        for j in range(got.n_face):
            if not used[j] and len(got.faces[j]) == len(a) and cyclic_equal(a, gp[got.faces[j]], tol):
                used[j] = True
                hit = True
                break
        if not hit:
            return f"model face {i} missing from result"
    return None
