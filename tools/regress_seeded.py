#!/venv/bin/python
"""Regression over the kept seeded changes: every /verif/seeded/<id> is applied to a scratch worktree of
/repo (never to /repo itself), the registered quick check of its property runs against that worktree
(VERIF_REPO + PYTHONPATH), and the outcome is written to /verif/seeded/REGRESSION.json.

  regress_seeded.py [--only ID_SUBSTRING] [--seed N]
"""
import json
import os
import shutil
import subprocess
import sys
import time

V = "/verif"
SHARD = os.environ.get("REGRESS_SHARD", "")  # several of these side by side: one worktree/scratch/output each
WT = "/tmp/uxverif-regress-wt" + SHARD
PY = "/venv/bin/python"


def sh(cmd, **kw):
    p = subprocess.run(cmd, capture_output=True, text=True, **kw)
    return p.returncode, p.stdout + p.stderr


def main():
    only = None
    seed = "0"
    a = sys.argv[1:]
    if "--merge" in a:
        out = os.path.join(V, "seeded", "REGRESSION.json")
        prev = json.load(open(out))
        for f in a[a.index("--merge") + 1 :]:
            part = json.load(open(f))
            prev["results"].update(part["results"])
            prev["repo_head"] = part["repo_head"]
        prev["n"] = len(prev["results"])
        prev["caught"] = sum(1 for r in prev["results"].values() if r.get("caught"))
        prev["out_of_reach"] = sum(1 for r in prev["results"].values() if r.get("status") == "out-of-reach")
        json.dump(prev, open(out, "w"), indent=1)
        print(f"{prev['caught']} of {prev['n']} caught, {prev['out_of_reach']} out of reach")
        return
    if "--only" in a:
        only = a[a.index("--only") + 1]
    if "--seed" in a:
        seed = a[a.index("--seed") + 1]
    sh(["git", "-C", "/repo", "worktree", "remove", "--force", WT])
    rc, out = sh(["git", "-C", "/repo", "worktree", "add", "--detach", WT, "HEAD"])
    assert rc == 0, out
    results = {}
    scratch = "/tmp/uxverif-regress-out" + SHARD
    os.makedirs(scratch, exist_ok=True)
    try:
        for mid in sorted(os.listdir(os.path.join(V, "seeded"))):
            d = os.path.join(V, "seeded", mid)
            if not os.path.isdir(d) or (only and only not in mid):
                continue
            meta = json.load(open(os.path.join(d, "meta.json")))
            prop = meta.get("check_property") or meta["property"]
            if meta.get("expected_caught") is False:
                results[mid] = {"property": prop, "status": "out-of-reach", "caught": False, "why": meta.get("why_not_caught", "")[:200]}
                print(mid, "out of reach (recorded as such)")
                continue
            applied = None
            for pf in ("patch.rebased.diff", "patch.diff"):
                pth = os.path.join(d, pf)
                if os.path.exists(pth):
                    rc, out = sh(["git", "-C", WT, "apply", "--whitespace=nowarn", pth])
                    if rc == 0:
                        applied = pf
                        break
            if not applied:
                # context drift after later fix commits: retry with fuzz
                for pf in ("patch.rebased.diff", "patch.diff"):
                    pth = os.path.join(d, pf)
                    if os.path.exists(pth):
                        sh(["git", "-C", WT, "checkout", "--", "."])
                        rc, out = sh(["patch", "-p1", "--fuzz=3", "-s", "-d", WT, "-i", pth])
                        if rc == 0:
                            applied = pf + " (fuzz)"
                            break
                for junk in sh(["git", "-C", WT, "status", "--porcelain"])[1].splitlines():
                    if junk.endswith((".orig", ".rej")):
                        try:
                            os.remove(os.path.join(WT, junk[3:]))
                        except OSError:
                            pass
            if not applied:
                sh(["git", "-C", WT, "checkout", "--", "."])
                results[mid] = {"property": prop, "status": "patch-does-not-apply", "detail": out[-300:]}
                print(mid, "PATCH DOES NOT APPLY")
                continue
            env = dict(os.environ, VERIF_REPO=WT, PYTHONPATH=WT, VERIF_SEED=seed, VERIF_EVIDENCE_DIR=scratch, VERIF_REPLAY_DIR=scratch, VERIF_SCRATCH="/tmp/uxverif-regress-scratch" + SHARD)
            t0 = time.time()
            rc, out = sh([PY, os.path.join(V, "check.py"), "--property", prop, "--tier", "quick"], env=env, cwd=V)
            lines = [ln for ln in out.splitlines() if ln.startswith("violation:")]
            results[mid] = {"property": prop, "patch": applied, "rc": rc, "caught": rc == 1, "wall_s": round(time.time() - t0, 1), "signatures": lines[:3]}
            print(mid, "CAUGHT" if rc == 1 else f"NOT CAUGHT rc={rc}", lines[:1], flush=True)
            sh(["git", "-C", WT, "checkout", "--", "."])
    finally:
        sh(["git", "-C", "/repo", "worktree", "remove", "--force", WT])
        shutil.rmtree(scratch, ignore_errors=True)
        shutil.rmtree("/tmp/uxverif-regress-scratch" + SHARD, ignore_errors=True)
    head = sh(["git", "-C", "/repo", "log", "--format=%h", "-1"])[1].strip()
    summary = {"repo_head": head, "seed": int(seed), "n": len(results), "caught": sum(1 for r in results.values() if r.get("caught")), "out_of_reach": sum(1 for r in results.values() if r.get("status") == "out-of-reach"), "results": results}
    out = os.path.join(V, "seeded", "REGRESSION.json")
    if SHARD:
        # a shard writes its own partial record; tools/regress_seeded.py --merge SHARDFILE... folds them in
        json.dump(summary, open(f"/tmp/uxverif-regress-{SHARD}.json", "w"), indent=1)
        print(f"shard {SHARD}: {summary['caught']} of {summary['n']} caught")
        return
    if only and os.path.exists(out):
        # merge a partial re-run into the existing record
        prev = json.load(open(out))
        prev["results"].update(results)
        prev["n"] = len(prev["results"])
        prev["caught"] = sum(1 for r in prev["results"].values() if r.get("caught"))
        prev.setdefault("partial_reruns", []).append({"only": only, "repo_head": head})
        summary = prev
    json.dump(summary, open(out, "w"), indent=1)
    print(f"{summary['caught']} of {summary['n']} caught")


if __name__ == "__main__":
    main()
