#!/venv/bin/python
"""Run the repository's pinned test suite (guard off: no VERIF env) and compare the set of passing
tests with /root/.vp/BASELINE.json.  Exit 0 iff every stable_pass test still passes."""
import json
import os
import subprocess
import sys
import tempfile
import xml.etree.ElementTree as ET

base = json.load(open("/root/.vp/BASELINE.json"))
fd, xml = tempfile.mkstemp(suffix=".xml")
os.close(fd)
env = {k: v for k, v in os.environ.items() if not k.startswith("VERIF") and k != "NUMBA_DISABLE_JIT"}
p = subprocess.run(
    ["/venv/bin/python", "-m", "pytest", "-ra", "-q", "-p", "no:cacheprovider", "--timeout=900", "--continue-on-collection-errors", f"--junitxml={xml}"],
    cwd="/repo", env=env, capture_output=True, text=True,
)
passed = set()
for tc in ET.parse(xml).getroot().iter("testcase"):
    if not any(ch.tag in ("failure", "error", "skipped") for ch in tc):
        passed.add(f"{tc.get('classname')}::{tc.get('name')}")
os.remove(xml)
want = set(base["stable_pass"])
missing = sorted(want - passed)
print(f"passed={len(passed)} baseline={len(want)} missing={len(missing)} newly_passing={len(passed - want)}")
for m in missing:
    print("MISSING", m)
for m in sorted(passed - want):
    print("NEW", m)
sys.exit(1 if missing else 0)
