#!/venv/bin/python
"""Regenerates /verif/MANIFEST.json from the table below and validates it against the schema."""
import json
import os
import subprocess
import sys

V = "/verif"
CLAIMED = {
    "C08": ("history", "4/C08", "seeded simulation of interleaved public-call histories over 1-3 grids, judged per step against a fresh-process reference table and a pristine module-state snapshot; fork-per-run, ddmin-minimised replay"),
}
TEXT = {
    "C08": "Exploration: seeded sampling of operation histories (both JIT configurations, a second PYTHONHASHSEED, simulated prange schedules, chunking, failed ops, other-grid ops, nine catalogue sources incl. ones that supply their own edge table or off-sphere Cartesian coordinates); each step judged against the value a pristine process returns for the same call on a freshly opened grid, plus a digest of every module-level template. A clean batch is evidence, not proof; abstract cache-state and transition counts say how much of the history space was reached.",
}
NOTE = {
    "C08": "Trusted: the value returned on a fresh grid in a pristine process (history independence, not absolute correctness); tolerance 1e-9; mesh/catalogue generators; numba/sklearn/cartopy as shipped. JIT-on prange threads are uncontrolled.",
}
NA = {
    "C01": "pure decode of a well-formed source and dialect: no schedule, clock, fault or shared state in the statement (disk faults are excluded by 'well-formed'); generating files/dialects is input generation, not simulation",
    "C02": "edge tables are a pure function of one face-node table; the only history-sensitivity of the implementation (edge side tables) is exercised under C08/C09",
    "C03": "incidence tables are pure functions of the face-node table (source-supplied tables are inputs)",
    "C05": "quadrature accuracy/invariance/table correctness are numerics over inputs and rule/order arguments; its single cache clause (cached face_areas equal a fresh default computation) is observed at every step of the C08 profile",
    "C06": "integration is a pure function of (grid, data, rule, order); the stale-area-cache scenario is a history effect covered by C08's registry",
    "C10": "compositions of value-returning xarray operations are expression trees (inputs), with no shared mutable state, interleaving or nondeterminism for a simulator to own; needs grammar-based program generation, a different technique",
    "C12": "remapping is a pure function of (source, data, destination, arguments) and always rebuilds its tree; its side effect on the tree cache is used as a perturbation in C11",
    "C13": "pure spherical geometry over faces; needs an exact-arithmetic oracle and margin-controlled input generation, not a simulator",
    "C14": "pure spherical geometry over arcs; needs an exact-arithmetic oracle, not a simulator",
    "C16": "pure function of (grid, data)",
    "C17": "pure function of (grid, data)",
    "C18": "the dual is a pure function of the mesh; JIT on/off is a build configuration without schedule or fault (get_dual runs under both JIT zygotes in C08's registry, but ring order is not judged there)",
    "C20": "equality is a pure predicate on two grids",
}

def main():
    extra = json.load(open(os.path.join(V, "tools", "claims.json"))) if os.path.exists(os.path.join(V, "tools", "claims.json")) else {}
    claimed = dict(CLAIMED)
    text, note = dict(TEXT), dict(NOTE)
    for pid, c in extra.get("claimed", {}).items():
        claimed[pid] = (c["profile"], c["design_ref"], c["technique"])
        text[pid] = c["text"]
        note[pid] = c["note"]
    na = dict(NA)
    for pid, r in extra.get("pending", {}).items():
        if pid not in claimed:
            na[pid] = r
    checks = []
    for pid in sorted(claimed):
        prof, ref, tech = claimed[pid]
        checks.append({
            "property_id": pid,
            "quick_cmd": f"/venv/bin/python /verif/check.py --property {pid} --tier quick",
            "thorough_cmd": f"/venv/bin/python /verif/check.py --property {pid} --tier thorough",
            "evidence_file": f"/verif/evidence/{pid}.json",
            "replay_cmd_template": "/venv/bin/python /verif/check.py --replay {path}",
            "engine": "uxsim",
            "level_claimed": {"category": "exploration", "text": text[pid], "design_ref": ref},
            "level_note": note[pid],
            "technique": tech,
        })
    man = {
        "version": 1,
        "setup_cmd": "/venv/bin/python /verif/tools/setup_check.py",
        "hooks": {
            "guard": "UXARRAY_VERIF",
            "enable": "none needed: every seam (prange, datetime in the Exodus encoder, dask scheduler, JIT configuration, module state via fork-per-run) is installed from /verif by monkeypatching the imported modules; /repo carries no hook code",
            "baseline_off_cmd": "cd /repo && /venv/bin/python -m pytest -ra -q -p no:cacheprovider --timeout=900 --continue-on-collection-errors",
            "source_commits": [],
            "add_only": True,
        },
        "engines": [{
            "name": "uxsim",
            "path": "/verif/sim",
            "serves_properties": sorted(claimed),
            "kind_free_text": "deterministic simulation: zygote + fork-per-run, one PRNG per run derived from VERIF_SEED, monkeypatched seams, per-step oracles, ddmin minimiser, fresh-interpreter replay",
        }],
        "checks": checks,
        "not_applicable": [{"property_id": k, "reason": v} for k, v in sorted(na.items())],
        "notes": "Exit codes: 0 held, 1 VIOLATION (replay file printed), 2 HARNESS-ERROR (never a pass). VERIF_SEED selects the base seed, VERIF_BUDGET_S the thorough wall budget per property, VERIF_SCRATCH the scratch directory (default /tmp/uxverif-<uid>, recreated on demand). Fix commits in /repo are listed in known_findings.json as status=fixed.",
    }
    with open(os.path.join(V, "MANIFEST.json"), "w") as fh:
        json.dump(man, fh, indent=1)
    r = subprocess.run(["python3-vt", "-c", "import json,jsonschema;jsonschema.validate(json.load(open('/verif/MANIFEST.json')),json.load(open('/root/.vp/MANIFEST.schema.json')));print('MANIFEST valid')"])
    return r.returncode

if __name__ == "__main__":
    sys.exit(main())
