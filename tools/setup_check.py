#!/venv/bin/python
"""MANIFEST.setup_cmd: nothing to build or install; verify that what the checks need is present."""
import os, sys
sys.path.insert(0, "/verif")
os.environ.setdefault("MPLBACKEND", "Agg")
import warnings; warnings.simplefilter("ignore")
import numpy, xarray, numba, sklearn, cartopy, shapely, geopandas, spatialpandas, antimeridian, netCDF4, dask  # noqa
import uxarray  # noqa
assert os.path.realpath(uxarray.__file__).startswith("/repo"), uxarray.__file__
import sim.model, sim.canon, sim.engine  # noqa
print("setup ok: uxarray from", os.path.dirname(uxarray.__file__))
