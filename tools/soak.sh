#!/bin/bash
# soak: every registered check, quick tier, several base seeds; prints one line per (property, seed)
# usage: tools/soak.sh "1 2 3 4" ["C04 C07 ..."] [tier]
SEEDS=${1:-"1 2 3"}
PROPS=${2:-"C04 C07 C08 C09 C11 C15 C19"}
TIER=${3:-quick}
cd "$(dirname "$0")/.."
for s in $SEEDS; do
  for p in $PROPS; do
    out=$(VERIF_SEED=$s timeout 3000 /venv/bin/python check.py --property $p --tier $TIER 2>&1)
    rc=$?
    echo "seed=$s $p rc=$rc $(echo "$out" | tail -n 1)"
    if [ $rc -ne 0 ]; then echo "$out" | grep -E "^violation|detail|VIOLATION|HARNESS" | head -8; fi
  done
done
