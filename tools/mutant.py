#!/venv/bin/python
"""Handling of seeded changes (mutants).

  mutant.py confirm <worktree> <mutant-dir>
        In the scratch worktree: demo passes on the pristine tree, fails with the patch, and every
        test of the pinned baseline still passes with the patch.  Prints a JSON summary.
  mutant.py check <patch.diff> <Cnn> [<Cnn> ...] [--tier quick] [--seed N]
        Applies the patch to /repo's working tree (which must be clean), runs the registered check of
        each property, undoes the patch (git checkout -- .) and prints which checks raised a VIOLATION.
  mutant.py check-wt <patch.diff> <Cnn> [...]
        Same, but on a private scratch worktree of /repo's HEAD; /repo is not touched.
  mutant.py keep <mutant-dir> <id> <property> <json-summary-file>
        Copies patch.diff/demo.py/notes.md into /verif/seeded/<id>/ and writes meta.json.
"""
import json
import os
import shutil
import subprocess
import sys
import tempfile
import time
import xml.etree.ElementTree as ET

PY = "/venv/bin/python"
REPO = "/repo"
VERIF = "/verif"


def sh(cmd, cwd=None, env=None, timeout=3600):
    p = subprocess.run(cmd, cwd=cwd, env=env, capture_output=True, text=True, timeout=timeout)
    return p.returncode, p.stdout + p.stderr


def clean(repo):
    rc, out = sh(["git", "-C", repo, "status", "--porcelain", "--untracked-files=no"])
    return out.strip() == ""


def confirm(wt, mdir):
    env = dict(os.environ, PYTHONPATH=wt, MPLBACKEND="Agg", PYTHONDONTWRITEBYTECODE="1")
    env = {k: v for k, v in env.items() if not k.startswith("VERIF") and k != "NUMBA_DISABLE_JIT"}
    res = {"worktree": wt, "mutant": mdir}
    assert clean(wt), "worktree not pristine"
    patch = os.path.join(mdir, "patch.diff")
    demo = os.path.join(mdir, "demo.py")
    rc, out = sh([PY, demo], cwd=wt, env=env, timeout=1800)
    res["demo_pristine_rc"] = rc
    rc, out = sh(["git", "-C", wt, "apply", "--whitespace=nowarn", patch])
    if rc != 0:
        res["apply_error"] = out[-500:]
        return res
    try:
        rc, out = sh([PY, demo], cwd=wt, env=env, timeout=1800)
        res["demo_patched_rc"] = rc
        res["demo_patched_tail"] = out[-400:]
        fd, xml = tempfile.mkstemp(suffix=".xml")
        os.close(fd)
        t0 = time.time()
        sh([PY, "-m", "pytest", "-q", "-p", "no:cacheprovider", "--timeout=900", "--continue-on-collection-errors", f"--junitxml={xml}"], cwd=wt, env=env, timeout=3600)
        passed = set()
        for tc in ET.parse(xml).getroot().iter("testcase"):
            if not any(ch.tag in ("failure", "error", "skipped") for ch in tc):
                passed.add(f"{tc.get('classname')}::{tc.get('name')}")
        os.remove(xml)
        want = set(json.load(open("/root/.vp/BASELINE.json"))["stable_pass"])
        res["tests_missing"] = sorted(want - passed)
        res["tests_passed"] = len(passed)
        res["tests_wall_s"] = round(time.time() - t0, 1)
    finally:
        sh(["git", "-C", wt, "checkout", "--", "."])
        for junk in ("grid_geoflow.exo",):
            try:
                os.remove(os.path.join(wt, junk))
            except OSError:
                pass
    res["ok"] = res.get("demo_pristine_rc") == 0 and res.get("demo_patched_rc") not in (0, None) and not res.get("tests_missing")
    return res


def check(patch, props, tier="quick", seed=None):
    assert clean(REPO), "/repo has uncommitted changes to tracked files"
    rc, out = sh(["git", "-C", REPO, "apply", "--whitespace=nowarn", patch])
    if rc != 0:
        return {"apply_error": out[-500:]}
    res = {"patch": patch, "results": {}}
    try:
        for p in props:
            env = dict(os.environ)
            if seed is not None:
                env["VERIF_SEED"] = str(seed)
            t0 = time.time()
            rc, out = sh([PY, os.path.join(VERIF, "check.py"), "--property", p, "--tier", tier], cwd=VERIF, env=env, timeout=7200)
            lines = [l for l in out.splitlines() if l.startswith("VIOLATION") or l.startswith("violation:") or l.startswith("  detail:") or l.startswith("HARNESS-ERROR")]
            res["results"][p] = {"rc": rc, "wall_s": round(time.time() - t0, 1), "lines": lines[:12]}
    finally:
        sh(["git", "-C", REPO, "checkout", "--", "."])
    assert clean(REPO)
    return res


def check_wt(patch, props, tier="quick", seed=None):
    """Like check(), but on a private scratch worktree of /repo's HEAD (VERIF_REPO + PYTHONPATH), so
    that /repo itself is never touched and several of these can run side by side."""
    import shutil
    import tempfile

    wt = tempfile.mkdtemp(prefix="uxverif-mut-wt-")
    os.rmdir(wt)
    rc, out = sh(["git", "-C", REPO, "worktree", "add", "--detach", wt, "HEAD"])
    assert rc == 0, out
    scratch = tempfile.mkdtemp(prefix="uxverif-mut-out-")
    res = {"patch": patch, "results": {}}
    try:
        rc, out = sh(["git", "-C", wt, "apply", "--whitespace=nowarn", patch])
        if rc != 0:
            rc, out2 = sh(["patch", "-p1", "--fuzz=3", "-s", "-d", wt, "-i", patch])
            if rc != 0:
                return {"apply_error": (out + out2)[-500:]}
            res["applied_with_fuzz"] = True
        for p in props:
            env = dict(os.environ, VERIF_REPO=wt, PYTHONPATH=wt, VERIF_EVIDENCE_DIR=scratch, VERIF_REPLAY_DIR=scratch, VERIF_SCRATCH=scratch + "-s")
            if seed is not None:
                env["VERIF_SEED"] = str(seed)
            t0 = time.time()
            rc, out = sh([PY, os.path.join(VERIF, "check.py"), "--property", p, "--tier", tier], cwd=VERIF, env=env, timeout=7200)
            lines = [l for l in out.splitlines() if l.startswith("VIOLATION") or l.startswith("violation:") or l.startswith("  detail:") or l.startswith("HARNESS-ERROR")]
            res["results"][p] = {"rc": rc, "wall_s": round(time.time() - t0, 1), "lines": lines[:12]}
    finally:
        sh(["git", "-C", REPO, "worktree", "remove", "--force", wt])
        shutil.rmtree(scratch, ignore_errors=True)
        shutil.rmtree(scratch + "-s", ignore_errors=True)
    return res


def keep(mdir, mid, prop, summary_file):
    dst = os.path.join(VERIF, "seeded", mid)
    os.makedirs(dst, exist_ok=True)
    for f in ("patch.diff", "demo.py", "notes.md"):
        if os.path.exists(os.path.join(mdir, f)):
            shutil.copy(os.path.join(mdir, f), os.path.join(dst, f))
    meta = json.load(open(summary_file))
    meta["id"] = mid
    meta["property"] = prop
    with open(os.path.join(dst, "meta.json"), "w") as fh:
        json.dump(meta, fh, indent=1)
    print("kept", dst)


if __name__ == "__main__":
    a = sys.argv[1:]
    if a[0] == "confirm":
        print(json.dumps(confirm(a[1], a[2]), indent=1))
    elif a[0] == "check":
        tier, seed = "quick", None
        rest = a[1:]
        if "--tier" in rest:
            i = rest.index("--tier")
            tier = rest[i + 1]
            del rest[i : i + 2]
        if "--seed" in rest:
            i = rest.index("--seed")
            seed = int(rest[i + 1])
            del rest[i : i + 2]
        print(json.dumps(check(rest[0], rest[1:], tier, seed), indent=1))
    elif a[0] == "check-wt":
        rest = a[1:]
        tier, seed = "quick", None
        if "--tier" in rest:
            i = rest.index("--tier")
            tier = rest[i + 1]
            del rest[i : i + 2]
        if "--seed" in rest:
            i = rest.index("--seed")
            seed = int(rest[i + 1])
            del rest[i : i + 2]
        print(json.dumps(check_wt(rest[0], rest[1:], tier, seed), indent=1))
    elif a[0] == "keep":
        keep(a[1], a[2], a[3], a[4])
