"""C19 — a grid shares no mutable state with its inputs, copies or exports (profile `alias`).

Parties: the caller's input objects, the grid g0, up to two copies (Grid.copy or
UxDataArray.copy(deep=True).uxgrid), and every object an export call handed back.  A run is a
seeded interleaving of constructions, copies, public mutators applied to either side of a copy,
exports, and in-place caller edits of exports.  Oracle = party isolation: after a step acting
on party X the bitwise digest of every OTHER party is what it was; an edited export never
changes a grid, and the same export call afterwards returns what it returned before the edit."""

import numpy as np

from sim.profile import Profile, V

RULE = (
    "one run = one seeded source (catalogue mesh x constructor x container kind x dialect, or a sample file passed as an "
    "in-memory dataset) + a seeded history (2-14 steps) of copy / public mutator on either side of a copy / export / "
    "in-place caller edit of an export. After every step the bitwise digest of every party not acted upon is compared "
    "with its recorded digest; inputs are digested before and after construction. non-trivial = at least one mutator or "
    "caller edit executed while at least one other party (copy, export or input container) existed. distinct = different "
    "(source class, multiset of (abstract grid state, op class)) fingerprint."
)
ASSUMPTIONS = [
    "a party's observable state = every variable of the grid's internal dataset (values, dims, attrs), dataset attrs, provenance and the caches kept outside the dataset, read without triggering lazy population; equality is bitwise",
    "in-place writes into arrays returned by public properties count as modification through the public API (Grid.copy is documented as a deep copy)",
    "inputs are compared right after construction (the statement) and again at the end of the run (the title: no shared mutable state)",
    "exceptions raised by a mutator or export are outcomes, not violations of C19",
]
COMPONENTS = {
    "real": ["uxarray constructors (from_topology, from_face_vertices, from_dataset, open_grid), Grid.copy, UxDataArray.copy, mutators, to_xarray/encode_as/to_geodataframe/to_polycollection/to_linecollection", "xarray", "geopandas/spatialpandas/matplotlib"],
    "seam": ["which party acts next and with which arguments (PRNG)", "numpy global RNG reseeded per Welzl call", "dask scheduler -> synchronous", "module state via fork per run"],
    "uncontrolled": [],
}
BUDGET = {"quick": {"off_runs": 1600, "on_runs": 40, "timeout": 300}, "thorough": {"budget_s": 900}}

MESHES = [
    ("band", {"nx": 8, "ny": 3}),
    ("band", {"nx": 5, "ny": 2, "lon0": -180.0}),
    ("patch", {"nx": 3, "ny": 3, "lon0": 150.0, "lon1": 200.0, "tri": 3}),
    ("mix", {"lon_c": 176.0}),
    ("mix", {"lon_c": -20.0, "lat_c": 50.0}),
    ("cube", {"n": 2}),
    ("cap", {}),
    ("ico", {}),
    ("two", {}),
]
FILES = [
    {"path": "ugrid/quad-hexagon/grid.nc"},
    {"path": "mpas/QU/mesh.QU.1920km.151026.nc"},
    {"path": "mpas/QU/mesh.QU.1920km.151026.nc", "use_dual": True},
    {"path": "exodus/mixed/mixed.exo"},
    {"path": "scrip/outCSne8/outCSne8.nc"},
    {"path": "exodus/outCSne8/outCSne8.g"},
    {"path": "geos-cs/c12/test-c12.native.nc4"},
]
CTORS = ["topology", "topology", "topology_lists", "open_grid_dict", "vertices", "vertices_list", "vertices_xyz", "ugrid_mem", "ugrid_mem", "open_grid_ds", "ugrid_file", "raw_ds", "esmf_mem", "esmf_mem"]

COORDS = ["node_lon", "node_lat", "node_x", "node_y", "node_z", "face_lon", "face_lat", "face_x", "face_y", "face_z", "edge_lon", "edge_lat", "edge_x", "edge_y", "edge_z"]
DERIVE = COORDS + [
    "n_nodes_per_face", "edge_node_connectivity", "face_edge_connectivity", "edge_face_connectivity", "node_face_connectivity",
    "face_face_connectivity", "face_areas", "bounds", "edge_node_distances", "edge_face_distances", "antimeridian_face_indices",
    "hole_edge_indices", "edge_node_z", "face_jacobian", "faces_at_lat", "edge_node_z", "faces_at_lat", "edge_node_z", "faces_at_lat", "tree:ball:nodes", "tree:ball:face centers", "tree:kd:nodes", "tree:kd:edge centers",
]
SETTERS = COORDS + [
    "face_node_connectivity", "edge_node_connectivity", "n_nodes_per_face", "face_areas", "node_face_connectivity", "face_face_connectivity",
    "edge_face_connectivity", "face_edge_connectivity", "edge_node_distances", "edge_face_distances", "bounds",
]
EXPORTS = [
    {"what": "to_xarray", "fmt": "ugrid"},
    {"what": "to_xarray", "fmt": "ugrid"},
    {"what": "to_xarray", "fmt": "exodus"},
    {"what": "to_xarray", "fmt": "scrip"},
    {"what": "encode_as", "fmt": "ugrid"},
    {"what": "encode_as", "fmt": "exodus"},
    {"what": "gdf", "engine": "spatialpandas", "pe": "exclude"},
    {"what": "gdf", "engine": "geopandas", "pe": "exclude"},
    {"what": "gdf", "engine": "spatialpandas", "pe": "split"},
    {"what": "gdf", "engine": "geopandas", "pe": "ignore", "ret_idx": True},
    {"what": "gdf", "engine": "geopandas", "pe": "exclude", "cache": False},
    {"what": "polyc", "pe": "exclude"},
    {"what": "polyc", "pe": "split", "ret_idx": True},
    {"what": "polyc", "pe": "ignore", "cache": False},
    {"what": "linec", "pe": "exclude"},
    {"what": "linec", "pe": "ignore"},
    {"what": "uxda_gdf", "engine": "geopandas", "pe": "exclude"},
    {"what": "uxda_gdf", "engine": "spatialpandas", "pe": "ignore"},
    {"what": "uxda_gdf", "engine": "geopandas", "pe": "exclude", "cache": False},
    {"what": "uxda_gdf", "engine": "spatialpandas", "pe": "exclude", "cache": False},
    {"what": "uxda_polyc", "pe": "exclude"},
    {"what": "uxda_polyc", "pe": "split"},
]


def gen_source(rng):
    if rng.random() < 0.22:
        f = dict(rng.choice(FILES))
        f["kind"] = "file"
        f["ctor"] = rng.choice(["from_dataset", "from_dataset", "open_grid_ds", "open_grid_path"])
        if f["ctor"] != "open_grid_path" and rng.random() < 0.4:
            f["cast"] = "int64"
        return f
    name, params = rng.choice(MESHES)
    spec = {"kind": "mesh", "mesh": name, "params": params, "variant": rng.choice([0, 1, 2]), "jitter": rng.choice([0.0, 0.2]), "ctor": rng.choice(CTORS)}
    d = {"lon360": rng.random() < 0.4, "start": rng.choice([0, 0, 1]), "dtype": rng.choice(["intp", "int32", "int64"])}
    if rng.random() < 0.4:
        d["fill"] = rng.choice([-1, -999, 999999])
    if spec["ctor"] in ("topology", "topology_lists", "open_grid_dict"):
        extra = []
        if rng.random() < 0.4:
            extra.append("node_xyz")
        if rng.random() < 0.3:
            extra.append(rng.choice(["face_lonlat", "face_xyz"]))
        if rng.random() < 0.3:
            extra += ["edge_nodes", rng.choice(["edge_lonlat", "edge_xyz"])]
        d["extra"] = extra
        d["xyz_scale"] = rng.choice([1.0, 1.0, 2.0, 6371.0])
        d["dict_kwargs"] = rng.random() < 0.4
    if spec["ctor"] == "vertices_xyz":
        d["xyz_scale"] = rng.choice([1.0, 1.0, 0.5, 6371.0])
    if spec["ctor"] == "esmf_mem":
        d["esmf_float"] = rng.random() < 0.5
    if spec["ctor"] in ("topology", "open_grid_dict"):
        d["conn_order"] = rng.choice(["C", "C", "F"])
    if spec["ctor"] in ("ugrid_mem", "open_grid_ds", "ugrid_file"):
        d.update(ugrid_edges=rng.random() < 0.45, edge_flip=rng.random() < 0.6, std_fill=rng.random() < 0.4, as_coords=rng.random() < 0.3)
        if d["std_fill"]:
            d["start"], d["dtype"] = 0, "int64"
    spec["dialect"] = d
    return spec


def _to_lists(kw):
    out = {}
    for k, v in kw.items():
        out[k] = v.tolist() if isinstance(v, np.ndarray) else v
    return out


def prepare(spec, scratch):
    """Returns (inputs, make): ``inputs`` maps a name to every object the caller is about to hand
    to the constructor (digested BEFORE the call), ``make()`` performs the public call."""
    import os

    import uxarray as ux
    import xarray as xr

    from sim import model as M
    from sim import world as Wd

    ctor = spec["ctor"]
    if spec["kind"] == "file":
        path = os.path.join(Wd.MESHFILES, spec["path"])
        dual = bool(spec.get("use_dual", False))
        if ctor == "open_grid_path":
            return {"path": path}, lambda: ux.open_grid(path, use_dual=dual)
        ds = xr.open_dataset(path)
        if spec.get("cast") == "int64":
            # the same source held in memory with 64-bit index tables (readers may skip a copy then)
            ds = ds.load()
            for vn in list(ds.variables):
                try:
                    if ds[vn].dtype.kind in "iu" and ds[vn].dtype != np.int64:
                        ds[vn] = ds[vn].astype(np.int64)
                except Exception:
                    pass  # e.g. variables with duplicate dimensions (GEOS-CS): left as they are
        ds.attrs["caller_note"] = "mine"
        if ctor == "from_dataset":
            return {"dataset": ds}, lambda: ux.Grid.from_dataset(ds, use_dual=dual)
        return {"dataset": ds}, lambda: ux.open_grid(ds, use_dual=dual)
    mesh = M.build(spec["mesh"], spec.get("params"), spec.get("variant", 0), spec.get("jitter", 0.0))
    d = spec.get("dialect") or {}
    if ctor in ("topology", "topology_lists", "open_grid_dict"):
        kw = Wd.topology_kwargs(mesh, d)
        if ctor == "topology_lists":
            kw = _to_lists(kw)
        if ctor == "open_grid_dict":
            if d.get("dict_kwargs"):
                # keyword arguments next to a topology dictionary (the dictionary is the caller's)
                extra_kw = {"face_lon": np.zeros(mesh.n_face), "face_lat": np.zeros(mesh.n_face)}
                return {"dict": kw, "kwargs": extra_kw}, lambda: ux.open_grid(kw, **extra_kw)
            return {"dict": kw}, lambda: ux.open_grid(kw)
        return {"kwargs": kw}, lambda: ux.Grid.from_topology(**kw)
    if ctor in ("vertices", "vertices_list", "vertices_xyz"):
        arr = Wd.vertices_array(mesh, xyz=(ctor == "vertices_xyz"), scale=(d.get("xyz_scale", 1.0) if ctor == "vertices_xyz" else 1.0))
        if ctor == "vertices_list":
            arr = arr.tolist()
        return {"face_vertices": arr}, lambda: ux.Grid.from_face_vertices(arr, latlon=(ctor != "vertices_xyz"))
    if ctor == "esmf_mem":
        ds = Wd.esmf_dataset(mesh, d)
        ds.attrs["title"] = "caller's dataset"
        return {"dataset": ds}, lambda: ux.Grid.from_dataset(ds)
    ds = Wd.ugrid_dataset(mesh, d)
    ds.attrs["title"] = "caller's dataset"
    ds.attrs["history"] = ["a", "b"]
    if ctor == "ugrid_mem":
        return {"dataset": ds}, lambda: ux.Grid.from_dataset(ds)
    if ctor == "open_grid_ds":
        return {"dataset": ds}, lambda: ux.open_grid(ds)
    if ctor == "ugrid_file":
        os.makedirs(scratch, exist_ok=True)
        path = os.path.join(scratch, "alias-src.nc")
        ds.to_netcdf(path)
        return {"path": path}, lambda: ux.open_grid(path)
    if ctor == "raw_ds":
        # a dataset already in uxarray's internal naming, handed over with an explicit spec
        lon = Wd._lon_out(mesh.lon, d.get("lon360", False))
        raw = xr.Dataset(
            {
                "node_lon": ("n_node", lon, {"units": "degrees_east"}),
                "node_lat": ("n_node", np.array(mesh.lat), {"units": "degrees_north"}),
                "face_node_connectivity": (("n_face", "n_max_face_nodes"), mesh.conn(), {"cf_role": "face_node_connectivity", "_FillValue": M.FILL, "start_index": 0}),
            },
            attrs={"owner": "caller"},
        )
        return {"dataset": raw}, lambda: ux.Grid.from_dataset(raw, source_grid_spec="UGRID")
    raise ValueError(ctor)


class Alias(Profile):
    name = "alias"
    prop = "C19"

    def gen_cfg(self, tier, jit):
        return {"tier": tier, "jit": bool(jit), "max_steps": 14 if tier == "thorough" else 9}

    # ------------------------------------------------------------------
    def gen_mutator(self, rng):
        r = rng.random()
        if r < 0.15:
            return {"kind": "face_centers", "method": rng.choice(["cartesian average", "welzl"]), "rs": rng.randrange(10**6)}
        if r < 0.27:
            return {"kind": "normalize"}
        if r < 0.37:
            return {"kind": "chunk", "n": rng.choice([-1, 2, 5])}
        if r < 0.6:
            return {"kind": "setter", "name": rng.choice(SETTERS), "k": rng.randrange(1000)}
        if r < 0.8:
            return {"kind": "derive", "name": rng.choice(DERIVE)}
        return {"kind": "inplace", "name": rng.choice(COORDS), "k": rng.randrange(1000)}

    def generate(self, rng, cfg):
        src = gen_source(rng)
        ops = [{"op": "construct"}]
        n = rng.randint(2, cfg["max_steps"])
        parties, exports = ["g0"], []
        avoid = cfg.get("avoid") or {}
        editable = []  # exports the generator may edit (avoid mode leaves known-finding triggers alone)
        for _ in range(n):
            r = rng.random()
            if r < 0.2 and len(parties) < 3:
                h = f"c{len(parties) - 1}"
                ops.append({"op": "copy", "src": rng.choice(parties), "as": h, "via": rng.choice(["grid", "grid", "grid", "uxda", "uxda_data", "uxda_deepcopy"])})
                parties.append(h)
            elif r < 0.55:
                ops.append(dict(self.gen_mutator(rng), op="mutate", on=rng.choice(parties)))
            elif r < 0.75 or not exports:
                h = f"x{len(exports)}"
                e = dict(rng.choice(EXPORTS), op="export", on=rng.choice(parties))
                e["as"] = h
                ops.append(e)
                exports.append(h)
                if not (avoid.get("edit_cached_gdf") and e["what"] == "gdf"):
                    editable.append(h)
            elif editable:
                ops.append({"op": "edit", "x": rng.choice(editable), "k": rng.randrange(1000)})
            else:
                ops.append(dict(self.gen_mutator(rng), op="mutate", on=rng.choice(parties)))
        return {"sources": {"g0": src}, "ops": ops, "avoid": bool(avoid)}

    def simplify(self, op):
        if op["op"] == "mutate" and op["kind"] == "setter" and op["name"] != "node_lat":
            yield dict(op, name="node_lat")

    def source_class(self, spec):
        if spec.get("kind") == "file":
            return f"file:{spec['path']}:{spec.get('ctor')}" + (":dual" if spec.get("use_dual") else "") + (":i64" if spec.get("cast") else "")
        d = spec.get("dialect") or {}
        return f"{spec['mesh']}/{spec.get('ctor')}/{','.join(sorted(d.get('extra', [])))}"

    def op_class(self, op):
        n = op["op"]
        if n == "mutate":
            return f"mutate:{op['kind']}"
        if n == "export":
            return f"export:{op['what']}:{op.get('fmt') or op.get('engine') or op.get('pe')}"
        if n == "copy":
            return f"copy:{op['via']}"
        return n

    # ------------------------------------------------------------------
    def begin(self, W):
        W.parties = {}  # handle -> grid
        W.digest = {}  # handle -> recorded digest
        W.version = {}
        W.parent = {}
        W.inputs = None
        W.input_digest = None
        W.exports = {}  # handle -> {"obj", "op", "on", "version", "canon", "edited"}

    def ensure(self, W):
        """Construct g0 (with the input check) if the trace no longer has its construct step."""
        if "g0" not in W.parties:
            return self.do_construct(W, -1)
        return []

    def do_construct(self, W, i):
        import warnings

        from sim import digests as D

        spec = W.trace["sources"]["g0"]
        inputs, make = prepare(spec, W.scratch)
        before = {k: D.input_digest(v) for k, v in inputs.items()}
        with warnings.catch_warnings():
            warnings.simplefilter("ignore")
            g = make()
        after = {k: D.input_digest(v) for k, v in inputs.items()}
        W.parties["g0"] = g
        W.inputs = inputs
        W.input_digest = after
        W.digest["g0"] = D.grid_digest(g)
        W.version["g0"] = 0
        W.fire("construct")
        vs = []
        for k in sorted(before):
            bad = D.diff(before[k], after[k])
            if bad:
                vs.append(V(f"C19/construct[{spec.get('ctor')}]/input-modified:{k}", i, f"constructor {spec.get('ctor')} changed the caller's {k}: {bad[:6]}"))
                break
        return vs

    def check_inputs_later(self, W, i):
        """Library-internal writes into the caller's inputs after construction."""
        from sim import digests as D

        if W.inputs is None:
            return []
        cur = {k: D.input_digest(v) for k, v in W.inputs.items()}
        for k in sorted(cur):
            bad = D.diff(W.input_digest[k], cur[k])
            if bad:
                return [V(f"C19/history/input-modified-later:{k}", i, f"after construction, operations on the grid or its copies changed the caller's {k}: {bad[:6]}")]
        return []

    # ------------------------------------------------------------------
    def check_others(self, W, i, acted, what):
        """Every party other than ``acted`` must have its recorded digest."""
        from sim import digests as D

        vs = []
        for h in sorted(W.parties):
            if h == acted:
                continue
            cur = D.grid_digest(W.parties[h])
            bad = D.diff(W.digest[h], cur)
            if bad:
                rel = self.relation(W, acted, h)
                vs.append(V(f"C19/{what}/aliasing:{rel}", i, f"{what} on {acted} changed {h} ({rel}): {bad[:6]}"))
                return vs
        return vs

    def relation(self, W, actor, victim):
        if actor is None:
            return "grid"
        if W.parent.get(actor) == victim:
            return "source-of-copy"
        if W.parent.get(victim) == actor:
            return "copy"
        return "sibling"

    def refresh(self, W, h):
        from sim import digests as D

        cur = D.grid_digest(W.parties[h])
        if cur != W.digest[h]:
            W.version[h] += 1
            W.digest[h] = cur

    def others_exist(self, W):
        return len(W.parties) > 1 or bool(W.exports)

    # ------------------------------------------------------------------
    def step(self, W, i, op):
        name = op["op"]
        if name == "construct":
            if "g0" in W.parties:
                return ("skip",), []
            vs = self.do_construct(W, i)
            W.cov["judged"] += 1
            return ("constructed",), vs
        vs = self.ensure(W)
        if vs:
            return ("constructed",), vs
        if name == "copy":
            return self.do_copy(W, i, op)
        if name == "mutate":
            return self.do_mutate(W, i, op)
        if name == "export":
            return self.do_export(W, i, op)
        if name == "edit":
            return self.do_edit(W, i, op)
        raise ValueError(name)

    def do_copy(self, W, i, op):
        import uxarray as ux

        from sim import digests as D

        src = op["src"]
        if src not in W.parties or op["as"] in W.parties:
            return ("skip",), []
        g = W.parties[src]
        try:
            if op["via"] == "grid":
                c = g.copy()
            else:
                da = ux.UxDataArray(np.arange(g.n_face, dtype=float), dims=["n_face"], uxgrid=g, name="v")
                if op["via"] == "uxda_data":
                    c = da.copy(deep=True, data=np.zeros(g.n_face)).uxgrid
                elif op["via"] == "uxda_deepcopy":
                    # the standard-library route into UxDataArray._copy (memo passed along)
                    import copy as _copy

                    c = _copy.deepcopy({"held": [da]})["held"][0].uxgrid
                else:
                    c = da.copy(deep=True).uxgrid
        except Exception as e:
            return ("exc", type(e).__name__), []
        h = op["as"]
        W.parties[h] = c
        W.parent[h] = src
        W.version[h] = 0
        W.digest[h] = D.grid_digest(c)
        W.fire("copy")
        vs = []
        # cached search trees are built lazily from the grid they point back to: a copy must not
        # carry wrappers that still belong to the original
        for attr in ("_ball_tree", "_kd_tree"):
            t = getattr(c, attr, None)
            if t is not None and (t is getattr(g, attr, None) or getattr(t, "_source_grid", c) is not c):
                vs.append(V(f"C19/copy[{op['via']}]/shares-search-tree", i, f"the copy's cached {attr[1:]} is the original's wrapper or still refers to the original grid: elements built later come from the original's coordinates"))
                break
        # the copy must report what the original reports (same variables, same values)
        a, b = W.digest[src], W.digest[h]
        bad = [k for k in D.diff(a, b) if k.startswith("var:") or k in ("__sizes__", "source_grid_spec")]
        # making a copy must not change the original
        self_bad = D.diff(W.digest[src], D.grid_digest(g))
        if vs:
            pass
        elif self_bad:
            vs.append(V(f"C19/copy[{op['via']}]/changed-original", i, f"copy() changed the grid it copies: {self_bad[:6]}"))
        elif bad:
            vs.append(V(f"C19/copy[{op['via']}]/copy-differs", i, f"the copy does not report what the original reports: {bad[:6]}"))
        if not vs:
            vs = self.check_others(W, i, h, f"copy[{op['via']}]")
        W.cov["judged"] += 1
        return ("copied", len(b)), vs

    def do_mutate(self, W, i, op):
        import xarray as xr

        h = op["on"]
        if h not in W.parties:
            return ("skip",), []
        g = W.parties[h]
        kind = op["kind"]
        out = ("ok",)
        try:
            if kind == "face_centers":
                np.random.seed(op.get("rs", 0))
                g.construct_face_centers(op["method"])
            elif kind == "normalize":
                g.normalize_cartesian_coordinates()
            elif kind == "chunk":
                g.chunk(n_node=op["n"], n_edge=op["n"], n_face=op["n"])
            elif kind == "derive":
                nm = op["name"]
                if nm == "faces_at_lat":
                    v = g.get_faces_at_constant_latitude(7.25)
                elif nm.startswith("tree:"):
                    _, tt, coords = nm.split(":")
                    v = (g.get_ball_tree if tt == "ball" else g.get_kd_tree)(coordinates=coords)
                else:
                    v = getattr(g, nm)
                out = ("derived", type(v).__name__)
            elif kind == "setter":
                old = getattr(g, op["name"])
                vals = np.array(old.values)
                if vals.dtype.kind == "f":
                    new = vals + (0.125 + (op["k"] % 7) * 0.01)
                    if op["name"].endswith("_lon"):
                        new = (new + 180.0) % 360.0 - 180.0
                    elif op["name"].endswith("_lat"):
                        new = np.clip(new, -90.0, 90.0)
                elif vals.ndim == 2 and vals.shape[0] > 1:
                    new = np.roll(vals, 1 + op["k"] % (vals.shape[0] - 1), axis=0)
                else:
                    new = vals[::-1].copy()
                setattr(g, op["name"], xr.DataArray(new, dims=old.dims, attrs=dict(old.attrs)))
            elif kind == "inplace":
                v = getattr(g, op["name"])
                arr = v.values
                if arr.dtype.kind == "f" and arr.size and arr.flags.writeable:
                    j = op["k"] % arr.size
                    pre = self.check_inputs_later(W, i)
                    nv = arr.flat[j] + 0.0625
                    # stay inside the coordinate's standard range (a copy re-wraps out-of-range
                    # longitudes, which is not an aliasing matter)
                    if op["name"].endswith("_lon") and nv > 180.0:
                        nv -= 0.125
                    elif op["name"].endswith("_lat") and nv > 90.0:
                        nv -= 0.125
                    arr.flat[j] = nv
                    out = ("written", int(j))
                    # zero-copy construction may legitimately share this array with the caller's
                    # input; a write made by the caller is not the library's doing
                    from sim import digests as D

                    W.input_digest = {k2: D.input_digest(v2) for k2, v2 in W.inputs.items()}
                    if pre:
                        return out, pre
                else:
                    out = ("not-writable",)
            else:
                raise ValueError(kind)
        except Exception as e:
            out = ("exc", type(e).__name__)
        what = f"mutate[{kind}]"
        W.fire(f"mutator:{kind}")
        if self.others_exist(W):
            W.cov["nontrivial"] = True
        W.cov["judged"] += 1
        vs = self.check_others(W, i, h, what)
        if not vs:
            vs = self.check_exports_untouched(W, i, what)
        self.refresh(W, h)
        return out, vs

    # ------------------------------------------------------------------
    def call_export(self, g, op):
        import uxarray as ux

        what = op["what"]
        if what == "to_xarray":
            return g.to_xarray(op["fmt"])
        if what == "encode_as":
            return g.encode_as({"ugrid": "UGRID", "exodus": "Exodus", "scrip": "SCRIP"}[op["fmt"]])
        kw = {"periodic_elements": op.get("pe", "exclude"), "cache": op.get("cache", True)}
        if what == "gdf":
            kw["engine"] = op["engine"]
            if op.get("ret_idx"):
                kw["return_non_nan_polygon_indices"] = True
            return g.to_geodataframe(**kw)
        if what == "polyc":
            if op.get("ret_idx"):
                kw["return_indices"] = True
            return g.to_polycollection(**kw)
        if what == "linec":
            return g.to_linecollection(**kw)
        da = ux.UxDataArray(np.arange(g.n_face, dtype=float) * 1.5 + 7.0, dims=["n_face"], uxgrid=g, name="v")
        if what == "uxda_gdf":
            return da.to_geodataframe(engine=op["engine"], **kw)  # kw carries cache
        if what == "uxda_polyc":
            return da.to_polycollection(**kw)
        raise ValueError(what)

    @staticmethod
    def canon_export(obj):
        from sim import canon as C
        from sim import ops as O

        if isinstance(obj, tuple):
            return ("seq", tuple(Alias.canon_export(o) for o in obj))
        tn = type(obj).__name__
        if tn == "Dataset":
            c = C.canon_dataset(obj)
            return (c[0], tuple((n, v) for n, v in c[1] if n != "qa_records"), c[2])
        if tn in ("GeoDataFrame", "PolyCollection", "LineCollection"):
            return O.canon_any(obj)
        return C.canon(obj)

    def do_export(self, W, i, op):
        from sim import world as Wd

        h = op["on"]
        if h not in W.parties or op["as"] in W.exports:
            return ("skip",), []
        g = W.parties[h]
        if op.get("fmt") == "exodus":
            Wd.SimClock.advance(3601)
        try:
            obj = self.call_export(g, op)
        except Exception as e:
            W.fire("export_failed")
            self.refresh(W, h)
            return ("exc", type(e).__name__), []
        what = f"export[{op['what']}]"
        vs = self.check_others(W, i, h, what)
        if not vs:
            vs = self.check_exports_untouched(W, i, what)
        self.refresh(W, h)
        c = self.canon_export(obj)
        first = obj[0] if isinstance(obj, tuple) else obj
        is_cache = first is g._gdf_cached_parameters.get("gdf")  # the grid handed out its cache itself
        W.exports[op["as"]] = {"obj": obj, "op": op, "on": h, "version": W.version[h], "canon": c, "edited": False, "digest": self.export_digest(obj), "is_cache": is_cache}
        W.fire("export")
        W.cov["judged"] += 1
        from sim import canon as C

        return ("exported", C.digest(c)), vs

    @staticmethod
    def export_digest(obj):
        from sim import canon as C

        return C.digest(Alias.canon_export(obj))

    def check_exports_untouched(self, W, i, what):
        """Objects handed out earlier and not edited by the caller keep the value they had."""
        for xh in sorted(W.exports):
            x = W.exports[xh]
            if x["edited"]:
                continue
            try:
                cur = self.export_digest(x["obj"])
            except Exception as e:
                cur = "unreadable:" + type(e).__name__
            if cur != x["digest"]:
                return [V(f"C19/{what}/aliasing:export[{x['op']['what']}]", i, f"{what} changed the {x['op']['what']} object handed out earlier ({xh})")]
        return []

    # ------------------------------------------------------------------
    def apply_edit(self, obj, k):
        """In-place caller edit of an exported object; returns the edit kind."""
        import xarray as xr

        if isinstance(obj, tuple):
            # (object, index list/array): edit the index container or the object
            if k % 2 == 0 and obj[1] is not None and len(obj[1]):
                idx = obj[1]
                if isinstance(idx, np.ndarray):
                    if idx.flags.writeable:
                        idx[:] = 0
                        return "indices-inplace"
                elif isinstance(idx, list):
                    idx[:] = [0] * len(idx)
                    return "indices-inplace"
            return self.apply_edit(obj[0], k // 2)
        tn = type(obj).__name__
        if tn == "Dataset":
            kind = ["values", "attrs", "addvar", "attr-arrays"][k % 4]
            names = sorted(map(str, obj.variables))
            if kind == "values":
                for n in names:
                    v = obj[n]
                    try:
                        a = v.values
                        if a.dtype.kind in "fiu" and a.size and a.flags.writeable:
                            a[...] = 0
                    except Exception:
                        pass
                    try:
                        if v.dtype.kind in "fiu":
                            obj[n] = v * 0
                    except Exception:
                        pass
            elif kind == "attrs":
                obj.attrs["edited"] = 1
                for n in names:
                    obj[n].attrs["junk"] = "x"
                    for a in list(obj[n].attrs):
                        if a != "junk":
                            try:
                                del obj[n].attrs[a]
                            except Exception:
                                pass
            elif kind == "addvar":
                obj["junk_var"] = xr.DataArray(np.zeros(3), dims=["junk_dim"])
                for n in names[:2]:
                    try:
                        del obj[n]
                    except Exception:
                        pass
            else:
                for n in names:
                    for a, val in obj[n].attrs.items():
                        if isinstance(val, np.ndarray) and val.size and val.flags.writeable:
                            val[...] = 0
                        elif isinstance(val, dict):
                            val["junk"] = 1
                        elif isinstance(val, list):
                            val.append("junk")
                for a, val in obj.attrs.items():
                    if isinstance(val, list):
                        val.append("junk")
            return "dataset:" + kind
        if tn == "GeoDataFrame":
            mod = type(obj).__module__.split(".")[0]
            kind = ["column", "droprows", "reverse", "buffers"][k % 4]
            if kind == "column":
                obj["junk"] = np.arange(len(obj), dtype=float)
            elif kind == "droprows":
                if len(obj) > 1:
                    obj.drop(obj.index[: max(1, len(obj) // 2)], inplace=True)
            elif kind == "reverse":
                obj["geometry"] = obj["geometry"].values[::-1]
            else:
                geo = obj["geometry"].values
                if hasattr(geo, "buffer_values"):
                    # spatialpandas keeps geometry in Arrow buffers, which are immutable by contract
                    # (buffer_values is a zero-copy view; even copy.deepcopy shares it).  Writing
                    # through that view is not a supported edit of a GeoDataFrame, so it is not
                    # generated (see DESIGN, false alarms corrected); replace the column instead.
                    obj["geometry"] = obj["geometry"].values[np.zeros(len(obj), dtype=int)]
                else:
                    # geopandas: shapely geometries are immutable; replace the objects in the array
                    try:
                        import shapely

                        arr = np.asarray(geo)
                        arr[:] = shapely.Point(0.0, 0.0)
                    except Exception:
                        pass
            return f"gdf[{mod}]:" + kind
        if tn == "PolyCollection":
            kind = ["set_array", "set_verts", "paths-inplace"][k % 3]
            if kind == "set_array":
                obj.set_array(np.full(len(obj.get_paths()), -5.0))
            elif kind == "set_verts":
                obj.set_verts([np.zeros((3, 2))])
            else:
                for p in obj.get_paths():
                    if p.vertices.flags.writeable:
                        p.vertices[...] = 0.0
            return "polyc:" + kind
        if tn == "LineCollection":
            kind = ["set_segments", "paths-inplace"][k % 2]
            if kind == "set_segments":
                obj.set_segments([np.zeros((2, 2))])
            else:
                for p in obj.get_paths():
                    if p.vertices.flags.writeable:
                        p.vertices[...] = 0.0
            return "linec:" + kind
        return "none"

    def do_edit(self, W, i, op):
        from sim import canon as C

        xh = op["x"]
        if xh not in W.exports:
            return ("skip",), []
        x = W.exports[xh]
        try:
            kind = self.apply_edit(x["obj"], op["k"])
        except Exception as e:
            kind = "edit-failed:" + type(e).__name__
        x["edited"] = True
        # the same object may have been handed out more than once (cache identity): the caller's
        # edit shows through every handle of it
        first = x["obj"][0] if isinstance(x["obj"], tuple) else x["obj"]
        for x2 in W.exports.values():
            f2 = x2["obj"][0] if isinstance(x2["obj"], tuple) else x2["obj"]
            if f2 is first:
                x2["edited"] = True
        W.fire("caller_edit")
        W.cov["nontrivial"] = True
        W.cov["judged"] += 1
        xw = x["op"]["what"]
        if xw == "gdf":
            xw = "gdf(cached)" if x.get("is_cache") else "gdf(uncached)"
        what = f"edit[{xw}:{kind}]"
        vs = self.check_others(W, i, None, what)
        if not vs:
            vs = self.check_exports_untouched(W, i, what)
        if vs:
            return (kind,), vs
        # the same export call now returns what it returned before the edit
        h = x["on"]
        if h in W.parties and W.version[h] == x["version"]:
            g = W.parties[h]
            try:
                again = self.canon_export(self.call_export(g, x["op"]))
            except Exception as e:
                again = ("exc", type(e).__name__)
            why = C.same(again, x["canon"])
            self.refresh(W, h)
            if why:
                return (kind,), [V(f"C19/{what}/re-export-differs", i, f"after the caller edited the returned object, the same call on {h} returns something else: {why}")]
        return (kind,), []

    # ------------------------------------------------------------------
    def finish(self, W):
        if W.inputs is None:
            return []
        n = len(W.trace["ops"])
        return self.check_others(W, n, None, "end-of-run") or self.check_inputs_later(W, n)


PROFILE = Alias()
