"""Runs in a fresh interpreter whose only JIT configuration is the environment
(NUMBA_DISABLE_JIT present or absent).  Prints one JSON line: call -> value (nested lists)."""
import json
import os
import sys
import warnings

warnings.simplefilter("ignore")
sys.path.insert(0, os.path.dirname(os.path.dirname(os.path.abspath(__file__))))
import numpy as np  # noqa: E402
import uxarray as ux  # noqa: E402

from sim import model as M  # noqa: E402

REPO = os.environ.get("VERIF_REPO", "/repo")
CALLS = ["n_edge", "face_edge_connectivity", "edge_face_connectivity", "node_face_connectivity", "face_areas", "bounds",
         "face_lon", "edge_x", "edge_node_distances", "edge_face_distances", "antimeridian_face_indices", "hole_edge_indices"]


def val(v):
    if hasattr(v, "values"):
        v = v.values
    a = np.asarray(v)
    if a.dtype.kind == "f":
        return ["f", a.shape, [None if x != x else float(x) for x in a.ravel().tolist()]]
    return ["i", a.shape, [int(x) for x in a.ravel().tolist()]]


out = {}
srcs = {"qh": lambda: ux.open_grid(os.path.join(REPO, "test/meshfiles/ugrid/quad-hexagon/grid.nc"))}
m = M.build("mix", {"lon_c": 176.0})
srcs["mix"] = lambda: ux.Grid.from_topology(m.lon, m.lat, m.conn(fill=-1), fill_value=-1)
c = M.build("cap", {})
srcs["cap"] = lambda: ux.Grid.from_topology(c.lon, c.lat, c.conn(fill=-1), fill_value=-1)
for sid, mk in srcs.items():
    for call in CALLS:
        g = mk()
        try:
            out[f"{sid}|{call}"] = val(getattr(g, call))
        except Exception as e:
            out[f"{sid}|{call}"] = ["exc", type(e).__name__]
    g = mk()
    try:
        out[f"{sid}|get_dual"] = val(g.get_dual().face_node_connectivity)
    except Exception as e:
        out[f"{sid}|get_dual"] = ["exc", type(e).__name__]
    g = mk()
    try:
        out[f"{sid}|compute_face_areas(gaussian,5)"] = val(g.compute_face_areas("gaussian", 5)[0])
    except Exception as e:
        out[f"{sid}|compute_face_areas(gaussian,5)"] = ["exc", type(e).__name__]
import numba  # noqa: E402

print(json.dumps(out))
