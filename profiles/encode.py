"""C07 — encoding a grid and reading it back preserves the grid (profile `encode`).

History = derivations, tree/plot cache constructions, chunking and clock jumps on 1-3 grids,
interleaved with encodings of any of them in any of the three formats.  Every encoding is
judged: the returned dataset is self-consistent, can be written to NetCDF, and opening it
(directly, and from the written file) yields the faces of the mesh model."""

import numpy as np

from sim.profile import Profile, V

RULE = (
    "one run = 1-3 seeded source grids (uniform and mixed face sizes, partial and closed, lon/lat-only and xyz-bearing, sample "
    "files) + a seeded history (2-14 steps) of derivations / tree and plot-cache constructions / chunk / simulated clock jumps / "
    "encodings of any grid in any format; every encoding is judged (self-consistency, NetCDF write, round trip from the returned "
    "dataset and from the file against the mesh model). non-trivial = a judged encoding preceded by at least one derivation on the "
    "same grid or an encoding of another grid. distinct = different (source classes, multiset of (abstract grid state, op class)) "
    "fingerprint."
)
ASSUMPTIONS = [
    "mesh model read from the three primary variables of the freshly opened source; faces compared by corner positions as unit vectors (1e-9 rad; 1e-6 for Exodus, which round-trips through xyz), up to cyclic rotation, consecutive repeated corners ignored",
    "same face order for UGRID and SCRIP, multiset for Exodus",
    "real netCDF4 I/O on a healthy scratch disk (no disk faults are in scope)",
    "the Exodus time stamp is read from the simulated clock and is not part of the comparison",
]
COMPONENTS = {
    "real": ["uxarray Grid.to_xarray/encode_as, _encode_ugrid/_encode_exodus/_encode_scrip, readers used to reopen (ux.open_grid on datasets and on files)", "xarray + netCDF4 file write/read"],
    "seam": ["order of derivations/encodings over grids (PRNG)", "datetime in the Exodus encoder -> SimClock (clock jumps incl. midnight and new year)", "dask scheduler -> synchronous", "module-level templates via fork per run"],
    "uncontrolled": [],
}
BUDGET = {"quick": {"off_runs": 260, "on_runs": 24, "timeout": 420}, "thorough": {"budget_s": 900}}

MESHES = [
    ("band", {"nx": 6, "ny": 2}),
    ("rll", {"nx": 6, "ny": 4}),
    ("rll", {"nx": 5, "ny": 3, "lon0": -170.0}),
    ("band", {"nx": 6, "ny": 3, "lon0": -180.0, "lat0": -45.0, "lat1": 45.0}),
    ("patch", {"nx": 5, "ny": 3, "lon0": 150.0, "lon1": 200.0, "lat0": -20.0, "lat1": 25.0}),
    ("patch", {"nx": 3, "ny": 2, "lon0": 150.0, "lon1": 200.0}),
    ("patch", {"nx": 3, "ny": 3, "lon0": -40.0, "lon1": 30.0, "tri": 4}),
    ("mix", {"lon_c": 176.0}),
    ("mix", {"lon_c": -20.0, "lat_c": 50.0}),
    ("cube", {"n": 2}),
    ("cube", {"n": 1}),
    ("ico", {}),
    ("cap", {}),
    ("two", {}),
]
FILES = [
    {"kind": "file", "path": "ugrid/quad-hexagon/grid.nc"},
    {"kind": "file", "path": "scrip/outCSne8/outCSne8.nc"},
    {"kind": "file", "path": "exodus/outCSne8/outCSne8.g"},
    {"kind": "file", "path": "mpas/QU/mesh.QU.1920km.151026.nc"},
    {"kind": "file", "path": "mpas/QU/mesh.QU.1920km.151026.nc", "use_dual": True},
]
DERIVE = [
    "n_edge", "face_edge_connectivity", "edge_face_connectivity", "node_face_connectivity", "face_face_connectivity", "face_lon",
    "face_x", "edge_lon", "edge_x", "node_x", "face_areas", "bounds", "edge_node_distances", "edge_face_distances",
    "hole_edge_indices", "antimeridian_face_indices", "n_nodes_per_face", "edge_node_z",
]
FMTS = ["ugrid", "ugrid", "exodus", "scrip"]


def gen_source(rng):
    if rng.random() < 0.15:
        return dict(rng.choice(FILES))
    name, params = rng.choice(MESHES)
    spec = {"kind": "mesh", "mesh": name, "params": params, "variant": rng.choice([0, 1, 2]), "jitter": rng.choice([0.0, 0.2])}
    r = rng.random()
    if r < 0.6:
        spec["prov"] = "topology"
        extra = []
        if rng.random() < 0.4:
            extra.append("node_xyz")
        if rng.random() < 0.25:
            extra.append(rng.choice(["face_lonlat", "face_xyz"]))
        if rng.random() < 0.25:
            extra += ["edge_nodes", rng.choice(["edge_lonlat", "edge_xyz"])]
        spec["dialect"] = {"lon360": rng.random() < 0.3, "extra": extra, "start": rng.choice([0, 1]), "xyz_scale": rng.choice([1.0, 1.0, 2.0]), "edge_flip": rng.random() < 0.5, "int_coords": rng.random() < 0.35}
        if spec["dialect"]["int_coords"]:
            spec["jitter"] = 0.0
        # connectivity typed as a caller would get it from a 32-bit file or np.int32 arithmetic
        spec["dialect"]["dtype"] = rng.choice(["intp", "intp", "int32"])
        spec["dialect"]["conn_order"] = rng.choice(["C", "C", "F"])
    elif r < 0.75:
        spec["prov"] = rng.choice(["vertices", "vertices_xyz", "vertices_xyz"])
        spec["dialect"] = {"xyz_scale": rng.choice([1.0, 1.0, 0.5, 2.0, 6371.0])}
    elif r < 0.9:
        spec["prov"] = rng.choice(["ugrid_mem", "ugrid_mem", "esmf_mem", "raw_ds"])
        spec["dialect"] = {"lon360": rng.random() < 0.5, "start": rng.choice([0, 1]), "spec": rng.choice([None, "custom"]), "esmf_float": rng.random() < 0.5}
        if spec["prov"] == "ugrid_mem":
            spec["dialect"].update(as_coords=rng.random() < 0.3, ugrid_edges=rng.random() < 0.4, edge_flip=rng.random() < 0.5, std_fill=rng.random() < 0.3)
    else:
        spec["prov"] = "ugrid_file"
        spec["dialect"] = {"lon360": rng.random() < 0.5, "start": rng.choice([0, 1]), "dtype": rng.choice(["int32", "int64"])}
    # the grid to encode may itself be second-generation (opened from an encoding) and/or a subset
    if rng.random() < 0.2:
        spec["reencode"] = rng.sample(["face_edge_connectivity", "edge_face_connectivity", "face_lon", "edge_lon", "node_x", "face_areas"], rng.randint(0, 3))
    if rng.random() < 0.25:
        spec["subset"] = [rng.randrange(1000) for _ in range(rng.randint(1, 6))]
    return spec


def dedup_cyclic(v, tol=1e-12):
    """Drop consecutive repeated positions (cyclically)."""
    from sim import model as M

    keep = []
    for j in range(len(v)):
        if not keep or M.angle_between(v[j], v[keep[-1]]) > tol:
            keep.append(j)
    while len(keep) > 1 and M.angle_between(v[keep[-1]], v[keep[0]]) <= tol:
        keep.pop()
    return v[keep]


def faces_equal(model, got, tol, ordered):
    """None if the faces of ``got`` (a model read from the reopened grid) are the model's."""
    from sim import model as M

    if got.n_face != model.n_face:
        return f"{got.n_face} faces instead of {model.n_face}"
    mp, gp = model.xyz(), got.xyz()
    if np.any(~np.isfinite(gp)):
        return "non-finite node positions"
    bad = [i for i, f in enumerate(got.faces) if any(n < 0 or n >= got.n_node for n in f)]
    if bad:
        return f"face {bad[0]} of the grid read back names node indices outside 0..{got.n_node - 1}: {got.faces[bad[0]][:6]}"
    want = [dedup_cyclic(mp[f]) for f in model.faces]
    have = [dedup_cyclic(gp[f]) for f in got.faces]
    if ordered:
        for i in range(model.n_face):
            if not M.cyclic_equal(want[i], have[i], tol):
                return f"face {i}: corners {len(have[i])} vs {len(want[i])}, positions differ" if len(have[i]) != len(want[i]) else f"face {i}: corner positions or their cyclic order differ"
        return None
    used = [False] * got.n_face
    for i in range(model.n_face):
        hit = False
        for j in range(got.n_face):
            if not used[j] and len(have[j]) == len(want[i]) and M.cyclic_equal(want[i], have[j], tol):
                used[j] = hit = True
                break
        if not hit:
            return f"face {i} of the source ({len(want[i])} corners) is not among the faces read back"
    return None


class Encode(Profile):
    name = "encode"
    prop = "C07"

    def gen_cfg(self, tier, jit):
        return {"tier": tier, "jit": bool(jit), "max_steps": 14 if tier == "thorough" else 9}

    def generate(self, rng, cfg):
        ng = rng.choice([1, 1, 2, 2, 3])
        sources = {f"g{i}": gen_source(rng) for i in range(ng)}
        hs = sorted(sources)
        n = rng.randint(2, cfg["max_steps"])
        ops = []
        for i in range(n):
            h = rng.choice(hs)
            r = rng.random()
            if r < 0.4 or i == n - 1:
                ops.append({"op": "encode", "g": h, "fmt": rng.choice(FMTS), "api": rng.choice(["to_xarray", "to_xarray", "encode_as"])})
            elif r < 0.75:
                ops.append({"op": "derive", "g": h, "name": rng.choice(DERIVE)})
            elif r < 0.82:
                ops.append({"op": "tree", "g": h, "type": rng.choice(["ball", "kd"]), "coords": rng.choice(["nodes", "face centers", "edge centers"])})
            elif r < 0.9:
                ops.append({"op": "plot", "g": h, "what": rng.choice(["gdf", "polyc", "linec"])})
            elif r < 0.95:
                ops.append({"op": "chunk", "g": h, "n": rng.choice([-1, 3])})
            else:
                ops.append({"op": "clock", "dt": rng.choice([1, 45, 3600, 86400, 31 * 86400, 400 * 86400])})
        return {"sources": sources, "ops": ops}

    def simplify(self, op):
        if op["op"] == "encode" and op.get("api") == "encode_as":
            yield dict(op, api="to_xarray")

    def simplify_sources(self, sources):
        # drop unused extra grids one at a time
        for h in sorted(sources):
            if h != "g0" and len(sources) > 1:
                yield {k: v for k, v in sources.items() if k != h}

    def op_class(self, op):
        if op["op"] == "encode":
            return f"encode:{op['fmt']}"
        if op["op"] == "derive":
            return "derive:" + op["name"]
        return op["op"]

    def begin(self, W):
        W.derived_on = set()
        W.encoded = []  # (handle, fmt)

    # ------------------------------------------------------------------
    def step(self, W, i, op):
        from sim import world as Wd

        n = op["op"]
        if n == "clock":
            Wd.SimClock.advance(op["dt"])
            W.fire("clock_jump")
            return ("clock", op["dt"]), []
        if op["g"] not in W.trace["sources"]:
            return ("skip",), []
        g = W.grid(op["g"])
        if n == "derive":
            try:
                getattr(g, op["name"])
                out = ("derived",)
            except Exception as e:
                out = ("exc", type(e).__name__)
            W.derived_on.add(op["g"])
            W.fire("prior_derivation")
            return out, []
        if n == "tree":
            try:
                (g.get_ball_tree if op["type"] == "ball" else g.get_kd_tree)(coordinates=op["coords"])
                out = ("tree",)
            except Exception as e:
                out = ("exc", type(e).__name__)
            W.derived_on.add(op["g"])
            W.fire("prior_derivation")
            return out, []
        if n == "plot":
            try:
                {"gdf": g.to_geodataframe, "polyc": g.to_polycollection, "linec": g.to_linecollection}[op["what"]]()
                out = ("plot",)
            except Exception as e:
                out = ("exc", type(e).__name__)
            W.derived_on.add(op["g"])
            W.fire("prior_derivation")
            return out, []
        if n == "chunk":
            try:
                g.chunk(n_node=op["n"], n_edge=op["n"], n_face=op["n"])
                out = ("chunked",)
            except Exception as e:
                out = ("exc", type(e).__name__)
            W.derived_on.add(op["g"])
            W.fire("storage_switch")
            return out, []
        if n == "encode":
            return self.judged(W, i, op)
        raise ValueError(n)

    def judged(self, W, i, op):
        import os
        import warnings

        import uxarray as ux

        from sim import canon as C
        from sim import model as M
        from sim import world as Wd

        h, fmt = op["g"], op["fmt"]
        g = W.grid(h)
        model = W.model(h)
        sig = f"C07/encode[{fmt}]"
        W.cov["judged"] += 1
        others = [e for e in W.encoded if e[0] != h]
        if h in W.derived_on or others:
            W.cov["nontrivial"] = True
        if others:
            W.fire("other_grid")
        ragged = len({len(f) for f in model.faces}) > 1
        gclass = "mixed-sizes" if ragged else "uniform"
        Wd.SimClock.advance(7)
        now = Wd.SimClock._now
        try:
            with warnings.catch_warnings():
                warnings.simplefilter("ignore")
                ds = g.to_xarray(fmt) if op.get("api", "to_xarray") == "to_xarray" else g.encode_as({"ugrid": "UGRID", "exodus": "Exodus", "scrip": "SCRIP"}[fmt])
        except Exception as e:
            W.encoded.append((h, fmt))
            return ("exc", type(e).__name__), [V(f"{sig}/exception({type(e).__name__})/grid[{gclass}]", i, f"{op.get('api', 'to_xarray')}({fmt}) on {h} raised {type(e).__name__}: {str(e)[:200]}")]
        W.encoded.append((h, fmt))
        out = C.canon_dataset(ds)
        out = (out[0], tuple((nm, v) for nm, v in out[1] if nm != "qa_records"), out[2])
        # (d) clock seam sanity
        if fmt == "exodus" and "qa_records" in ds:
            q = [str(x) for x in np.asarray(ds["qa_records"].values).ravel()]
            if now.strftime("%Y:%m:%d") not in q or now.strftime("%H:%M:%S") not in q:
                W.notes.append(f"exodus time stamp {q} does not show the simulated clock {now}")
        # (a) self-consistency of the topology metadata
        if fmt == "ugrid":
            why = self.self_consistent(ds)
            if why:
                return out, [V(f"{sig}/self-consistency", i, f"{h}: {why}")]
        tol = 1e-6 if fmt == "exodus" else 1e-9
        ordered = fmt != "exodus"
        # (c1) round trip from the returned dataset
        try:
            with warnings.catch_warnings():
                warnings.simplefilter("ignore")
                g2 = ux.open_grid(ds)
                got = Wd.aligned_model(g2)
        except Exception as e:
            return out, [V(f"{sig}/reopen-dataset/exception({type(e).__name__})/grid[{gclass}]", i, f"opening the encoded dataset of {h} raised {type(e).__name__}: {str(e)[:200]}")]
        why = faces_equal(model, got, tol, ordered)
        if why:
            return out, [V(f"{sig}/faces/grid[{gclass}]", i, f"{h} encoded as {fmt} and opened again: {why}")]
        # (b) NetCDF write, (c2) round trip from the file
        path = os.path.join(W.scratch, f"enc-{i}-{fmt}.nc")
        try:
            with warnings.catch_warnings():
                warnings.simplefilter("ignore")
                ds.to_netcdf(path)
        except Exception as e:
            return out, [V(f"{sig}/to_netcdf/exception({type(e).__name__})", i, f"the {fmt} encoding of {h} cannot be written to NetCDF: {type(e).__name__}: {str(e)[:240]}")]
        try:
            with warnings.catch_warnings():
                warnings.simplefilter("ignore")
                g3 = ux.open_grid(path)
                # the caller's temporary file goes away once the grid is open (an open handle keeps
                # the data readable); the path may be reused by the next encoding
                os.remove(path)
                got3 = Wd.aligned_model(g3)
        except Exception as e:
            return out, [V(f"{sig}/reopen-file/exception({type(e).__name__})/grid[{gclass}]", i, f"opening the written {fmt} file of {h} raised {type(e).__name__}: {str(e)[:200]}")]
        finally:
            try:
                os.remove(path)
            except OSError:
                pass
        why = faces_equal(model, got3, tol, ordered)
        if why:
            return out, [V(f"{sig}/faces-from-file/grid[{gclass}]", i, f"{h} encoded as {fmt}, written and opened again: {why}")]
        return out, []

    @staticmethod
    def self_consistent(ds):
        topo = [n for n in ds.variables if ds[n].attrs.get("cf_role") == "mesh_topology"]
        if len(topo) != 1:
            return f"{len(topo)} mesh_topology variables"
        at = ds[topo[0]].attrs
        for a, x in at.items():
            a = str(a)
            if a.endswith("_connectivity") and str(x) not in ds.variables:
                return f"topology names {a}={x!r}, which is not in the dataset"
            if a.endswith("_coordinates"):
                for nm in str(x).split():
                    if nm not in ds.variables:
                        return f"topology names coordinate {nm!r} ({a}), which is not in the dataset"
            if a.endswith("_dimension") and a != "topology_dimension" and str(x) not in ds.dims:
                return f"topology names {a}={x!r}, which is not a dimension of the dataset"
        for need in ("node_coordinates", "face_node_connectivity"):
            if need not in at:
                return f"topology lacks {need}"
        return None


PROFILE = Encode()
