"""C11 — neighbour queries agree with brute force under the tree's metric (profile `trees`).

History = seeded sequence of differently parameterised tree requests, remaps and subset calls
(which replace or reuse the cached tree behind the caller's back) on one grid; judged steps
request a tree with given parameters and query it; the oracle is a brute-force search over the
mesh model's element positions under the requested metric."""

import math

import numpy as np

from sim.profile import Profile, V

RULE = (
    "one run = one source grid (seeded catalogue mesh x provenance, or a sample file) + a seeded history (2-16 steps) of "
    "tree requests with varying (type, element kind, coordinate system, metric, reconstruct), remap / subset calls, and "
    "judged k-nearest / radius queries (single and batched points, degrees and radians, both sides of the antimeridian, "
    "poles). non-trivial = a judged query preceded by at least one request/remap/subset with different tree parameters on "
    "the same grid. distinct = different (source class, multiset of (abstract grid state, op class)) fingerprint."
)
ASSUMPTIONS = [
    "element positions: nodes from the mesh model; centres as shipped by the source, else the normalised mean of the corner unit vectors (edge order read from the grid)",
    "ties and radius-boundary elements (within 1e-9) are excluded from set comparison; elements with |lon| within 1e-9 of 180 are treated as ambiguous under the planar (lat, lon) metric",
    "radius sets are judged only where the unit of r is unambiguous in the documentation (ball/spherical with in_radians=False: degrees; kd/spherical with in_radians=True: radians; Cartesian: chord)",
    "Cartesian trees of sources whose stored x/y/z are not unit length (positions in the source's own length unit) are judged on the stored positions; kinds whose Cartesian positions such a source does not ship are not judged",
    "query points that are the antipode of an element feed radius queries only (r just short of the whole sphere): k-nearest order from an antipode is decided by rounding",
    "sklearn is the system under test here, never the oracle",
]
COMPONENTS = {
    "real": ["uxarray Grid.get_ball_tree/get_kd_tree, BallTree/KDTree wrappers, remap, subset", "sklearn.neighbors"],
    "seam": ["order and parameters of requests (PRNG)", "module state via fork per run"],
    "uncontrolled": [],
}
BUDGET = {"quick": {"off_runs": 700, "on_runs": 60, "timeout": 300}, "thorough": {"budget_s": 900}}

MESHES = [
    ("band", {"nx": 8, "ny": 3}),
    ("band", {"nx": 6, "ny": 2, "lon0": -180.0}),
    ("patch", {"nx": 4, "ny": 3, "lon0": 150.0, "lon1": 200.0, "tri": 4}),
    ("mix", {"lon_c": 179.0}),
    ("mix", {"lon_c": -20.0, "lat_c": 60.0}),
    ("cube", {"n": 2}),
    ("cap", {}),
    ("ico", {}),
    ("two", {}),
]
FILES = [
    {"kind": "file", "path": "ugrid/quad-hexagon/grid.nc"},
    {"kind": "file", "path": "mpas/QU/mesh.QU.1920km.151026.nc"},
    {"kind": "file", "path": "mpas/QU/mesh.QU.1920km.151026.nc", "use_dual": True},
    {"kind": "file", "path": "mpas/QU/mesh.QU.1920km.151026.nc", "twice": True},
]
KINDS = ["nodes", "face centers", "edge centers"]
TREE_PARAMS = [
    ("ball", "spherical", "haversine"),
    ("ball", "cartesian", "euclidean"),
    ("ball", "cartesian", "minkowski"),
    ("ball", "cartesian", "chebyshev"),
    ("kd", "cartesian", "minkowski"),
    ("kd", "cartesian", "euclidean"),
    ("kd", "cartesian", "manhattan"),
    ("kd", "spherical", "minkowski"),
    ("kd", "spherical", "chebyshev"),
]
POINTS = [
    (-179.7, 3.0), (179.6, -4.0), (180.0, 20.0), (-180.0, -35.0), (0.0, 0.0), (0.3, 0.1), (-0.2, -0.15), (12.0, 89.5),
    (-100.0, -89.0), (0.0, 90.0), (45.0, 45.0), (170.0, 60.0), (-171.0, 8.0), (95.0, -20.0), (-60.0, -15.0), (20.0, 10.0), (176.0, 10.0),
    # the same places written in the 0..360 convention: identical under great-circle and chord
    # metrics, 360 degrees away from their -180..180 twins under the planar (lat, lon) metric
    (187.4, 8.0), (359.5, -5.0), (270.0, 45.0), (181.0, -30.0), (340.0, 62.0),
]


def gen_source(rng, cfg):
    if rng.random() < 0.2:
        return dict(rng.choice(FILES))
    name, params = rng.choice(MESHES)
    spec = {"kind": "mesh", "mesh": name, "params": params, "variant": rng.choice([0, 1, 2, 3]), "jitter": rng.choice([0.0, 0.3])}
    r = rng.random()
    if r < 0.5:
        spec["prov"] = "topology"
        extra = []
        if rng.random() < 0.3:
            extra.append("node_xyz")
        if rng.random() < 0.3:
            extra.append(rng.choice(["face_lonlat", "face_xyz"]))
        if rng.random() < 0.3:
            extra += ["edge_nodes", rng.choice(["edge_lonlat", "edge_xyz"])]
        spec["dialect"] = {"lon360": rng.random() < 0.3, "extra": extra, "edge_flip": rng.random() < 0.5, "int_coords": rng.random() < 0.3}
        if extra and rng.random() < 0.3:
            spec["dialect"]["xyz_scale"] = rng.choice([2.0, 10.0, 6371.0])  # Cartesian positions in the source's own length unit
        if spec["dialect"]["int_coords"]:
            spec["jitter"] = 0.0  # whole-degree meshes only stay whole without jitter
    elif r < 0.7:
        spec["prov"] = rng.choice(["vertices", "vertices_xyz"])
    else:
        spec["prov"] = rng.choice(["ugrid_mem", "ugrid_mem", "esmf_mem"])
        spec["dialect"] = {"lon360": rng.random() < 0.5, "start": rng.choice([0, 1])}
    return spec


class Trees(Profile):
    name = "trees"
    prop = "C11"

    def gen_cfg(self, tier, jit):
        return {"tier": tier, "jit": bool(jit), "max_steps": 16 if tier == "thorough" else 10}

    def gen_tree(self, rng):
        t, cs, me = rng.choice(TREE_PARAMS)
        op = {"type": t, "coords": rng.choice(KINDS), "csys": cs, "metric": me, "reconstruct": rng.random() < 0.25}
        if rng.random() < 0.15:
            # defaults left implicit
            if (t, cs, me) in (("ball", "spherical", "haversine"), ("kd", "cartesian", "minkowski")):
                for k in ("csys", "metric"):
                    op.pop(k)
                if rng.random() < 0.5:
                    op.pop("reconstruct")
        return op

    def generate(self, rng, cfg):
        src = gen_source(rng, cfg)
        sources = {"g0": src}
        if rng.random() < 0.5:
            sources["g1"] = gen_source(rng, cfg)
        n = rng.randint(2, cfg["max_steps"])
        ops = []
        for i in range(n):
            r = rng.random()
            last = i == n - 1
            if r < 0.07 and not last:
                # a request that fails by contract (misspelt element kind) but names new parameters
                ops.append(dict(self.gen_tree(rng), op="tree_fail", g="g0", bad=rng.choice(["face center", "node", "edges", ""])))
            elif r < 0.11 and not last:
                ops.append({"op": "chunk", "g": "g0", "n": rng.choice([-1, 3, 5])})
            elif r < 0.15 and not last:
                # a coordinate selection that reads the grid's longitudes (spanning the antimeridian)
                ops.append({"op": "bbox_am", "g": "g0", "element": rng.choice(KINDS)})
            elif r < 0.4 and not last:
                ops.append(dict(self.gen_tree(rng), op="tree", g="g0"))
            elif r < 0.5 and not last and "g1" in sources:
                ops.append({"op": "remap", "g": "g0", "dest": "g1", "method": rng.choice(["nn", "idw"]), "data_on": rng.choice(KINDS), "remap_to": rng.choice(KINDS), "coord_type": rng.choice(["spherical", "cartesian"])})
            elif r < 0.6 and not last:
                p = rng.choice(POINTS)
                ops.append({"op": rng.choice(["knn", "bcircle"]), "g": "g0", "center": list(p), "cart": rng.random() < 0.4, "k": rng.choice([1, 2, 3]), "r": rng.choice([5.0, 30.0]), "element": rng.choice(KINDS)})
            else:
                q = dict(self.gen_tree(rng), g="g0")
                npts = rng.choice([1, 1, 2, 4])
                q["points"] = [list(rng.choice(POINTS)) for _ in range(npts)]
                if rng.random() < 0.3:
                    q["points"][0] = {"elem": rng.randrange(1000)}  # a query point that IS an element
                    if rng.random() < 0.3:
                        q["points"][0]["anti"] = True  # ... or the antipode of one
                q["in_radians"] = rng.random() < 0.35
                prev = [o for o in ops if o["op"] in ("query", "radius")]
                if prev and rng.random() < 0.45:
                    # the caller reuses the very array object it passed to an earlier query
                    o = rng.choice(prev)
                    for kk in ("type", "csys", "metric", "coords"):
                        if kk in o:
                            q[kk] = o[kk]
                        else:
                            q.pop(kk, None)
                    q["points"] = o["points"]
                    q["in_radians"] = o["in_radians"]
                    q["reuse"] = True
                if rng.random() < 0.65:
                    q["op"] = "query"
                    if isinstance(q["points"][0], dict) and q["points"][0].get("anti"):
                        # seen from the antipode all elements are nearly equidistant (d = 2 - O(angle^2)):
                        # "nearest first" is decided by rounding there, so antipodes only feed radius queries
                        q["points"] = [dict(q["points"][0])] + q["points"][1:]
                        q["points"][0].pop("anti")
                    q["k"] = rng.choice([1, 1, 2, 3, 5, "n", "n-1"])
                    q["return_distance"] = rng.random() < 0.8
                else:
                    q["op"] = "radius"
                    q["r"] = rng.choice([0.0, 0.05, 1.0, 7.5, 30.0, 100.0, 200.0]) if q.get("csys", "x") == "spherical" or q["type"] == "ball" and "csys" not in q else rng.choice([0.0, 0.01, 0.3, 1.0, 2.1])
                    q["mode"] = rng.choice(["ind", "dist", "count", "dist_sorted"])
                    if isinstance(q["points"][0], dict) and rng.random() < 0.35:
                        q["r"] = 0.0  # closed ball of radius zero centred on an element
                    if isinstance(q["points"][0], dict) and q["points"][0].get("anti") and rng.random() < 0.7:
                        # just short of the whole sphere: everything but the antipodal element
                        q["r"] = rng.choice([179.999, 179.99]) if q.get("csys", "x") == "spherical" or q["type"] == "ball" and "csys" not in q else rng.choice([1.99, 1.9999])
                ops.append(q)
        return {"sources": sources, "ops": ops}

    def simplify(self, op):
        if op["op"] in ("query", "radius") and len(op.get("points", [])) > 1:
            for p in op["points"]:
                yield dict(op, points=[p])
        if op["op"] == "query" and op.get("k") not in (1,):
            yield dict(op, k=1)

    def op_class(self, op):
        if op["op"] in ("tree", "query", "radius", "tree_fail"):
            return f"{op['op']}:{op['type']}:{op.get('csys', 'default')}"
        return op["op"]

    def begin(self, W):
        W.last_tree = {}
        W.switched = False
        W.point_arrays = {}

    # ------------------------------------------------------------------
    def step(self, W, i, op):
        from sim import canon as C
        from sim import ops as O

        name = op["op"]
        g = W.grid("g0")
        if name == "tree":
            try:
                t = O.get_tree(g, op)
                out = ("tree", str(t._coordinates), str(t.coordinate_system), str(t.distance_metric))
            except Exception as e:
                out = ("exc", type(e).__name__)
            self.note_request(W, op)
            vs = []
            if out[0] == "tree":
                vs = self.check_params(t, op, i)
            return out, vs
        if name == "tree_fail":
            try:
                O.get_tree(g, dict(op, coords=op["bad"]))
                out = ("no-exception",)
            except Exception as e:
                out = ("exc", type(e).__name__)
                W.fire("failed_op")
                W.cov["failed_ops"] += 1
            W.switched = True
            return out, []
        if name == "bbox_am":
            try:
                sub = g.subset.bounding_box((150.0, -150.0), (-85.0, 88.0), element=op["element"])
                out = ("sub", int(sub.n_face))
            except Exception as e:
                out = ("exc", type(e).__name__)
            W.fire("subset_reads_longitudes")
            W.switched = True
            return out, []
        if name == "chunk":
            try:
                g.chunk(n_node=op["n"], n_edge=op["n"], n_face=op["n"])
                out = ("chunked",)
            except Exception as e:
                out = ("exc", type(e).__name__)
            W.fire("storage_switch")
            W.switched = True
            return out, []
        if name == "remap":
            import uxarray as ux

            dest = W.grid(op["dest"])
            try:
                n = {"nodes": g.n_node, "face centers": g.n_face, "edge centers": g.n_edge}[op["data_on"]]
                dim = {"nodes": "n_node", "face centers": "n_face", "edge centers": "n_edge"}[op["data_on"]]
                da = ux.UxDataArray(np.arange(n, dtype=float), dims=[dim], uxgrid=g, name="v")
                if op["method"] == "nn":
                    r = da.remap.nearest_neighbor(dest, remap_to=op["remap_to"], coord_type=op["coord_type"])
                else:
                    r = da.remap.inverse_distance_weighted(dest, remap_to=op["remap_to"], coord_type=op["coord_type"], k=min(3, n))
                out = ("remap", C.canon(np.asarray(r.values)))
            except Exception as e:
                out = ("exc", type(e).__name__)
            W.fire("remap_tree_replacement")
            W.switched = True
            return out, []
        if name in ("knn", "bcircle"):
            from sim import model as M

            c = op["center"]
            center = tuple(M.unit(c[0], c[1])) if op.get("cart") else tuple(c)
            try:
                if name == "knn":
                    sub = g.subset.nearest_neighbor(center, k=op["k"], element=op["element"])
                else:
                    sub = g.subset.bounding_circle(center, op["r"], element=op["element"])
                out = ("sub", int(sub.n_face))
            except Exception as e:
                out = ("exc", type(e).__name__)
            W.fire("subset_tree_reuse")
            W.switched = True
            return out, []
        # judged query
        return self.judged(W, i, op)

    def note_request(self, W, op):
        from sim import ops as O

        key = op["type"]
        cur = O.tree_defaults(op)
        if key in W.last_tree and W.last_tree[key] != cur:
            W.fire("arg_switch")
            W.switched = True
        else:
            W.fire("prior_derivation")
        W.last_tree[key] = cur

    def check_params(self, t, op, i):
        from sim import ops as O

        coords, csys, metric = O.tree_defaults(op)
        got = (str(t._coordinates), str(t.coordinate_system), str(t.distance_metric))
        if got != (coords, csys, metric):
            return [V(f"C11/tree[{op['type']}]/tree-params", i, f"requested (kind, coordinate_system, metric)={(coords, csys, metric)} but the handed-back tree reports {got}")]
        return []

    # ------------------------------------------------------------------
    def elements(self, W, kind, g):
        from sim import world as Wd

        return Wd.element_lonlat(W.source("g0"), kind, g)

    def dist_bounds(self, op, elon, elat, exyz, qlon, qlat):
        """Lower/upper bound arrays of the metric distance from the query point to every element
        (equal unless the planar metric meets an element or query at |lon| = 180)."""
        from sim import model as M
        from sim import ops as O

        coords, csys, metric = O.tree_defaults(op)
        if csys == "spherical" and metric == "haversine":
            d = M.gc_dist(exyz, M.unit(qlon, qlat)[None, :])
            return d, d
        if csys == "cartesian":
            diff = np.abs(exyz - M.unit(qlon, qlat)[None, :])
            d = self._norm(diff, metric)
            return d, d
        # planar on (lat, lon) radians
        la, lo = np.deg2rad(elat), np.deg2rad(elon)
        qa, qo = math.radians(qlat), math.radians(qlon)
        cands = []
        for qsign in ((1, -1) if abs(abs(qlon) - 180.0) < 1e-9 else (1,)):
            for esign in (1, -1):
                lo2 = np.where(np.abs(np.abs(elon) - 180.0) < 1e-9, esign * lo, lo)
                diff = np.stack([np.abs(la - qa), np.abs(lo2 - qsign * qo)], axis=-1)
                cands.append(self._norm(diff, metric))
        cands = np.array(cands)
        dl, du = cands.min(axis=0), cands.max(axis=0)
        # an element (or query point) at a pole has no defined longitude
        pole = np.abs(np.abs(elat) - 90.0) < 1e-6
        if pole.any() or abs(abs(qlat) - 90.0) < 1e-6:
            amb = pole if abs(abs(qlat) - 90.0) >= 1e-6 else np.ones_like(pole)
            dlat = np.abs(la - qa)
            lo_b = self._norm(np.stack([dlat, np.zeros_like(dlat)], axis=-1), metric)
            # the pole's stored longitude is arbitrary in [-pi, pi]; the query's may be anything the
            # caller wrote (0..360 convention): the planar longitude difference can reach |q| + pi
            hi_b = self._norm(np.stack([dlat, np.full_like(dlat, abs(qo) + math.pi + 1e-9)], axis=-1), metric)
            dl = np.where(amb, lo_b, dl)
            du = np.where(amb, hi_b, du)
        return dl, du

    @staticmethod
    def _norm(diff, metric):
        if metric in ("minkowski", "euclidean", "l2"):
            return np.sqrt((diff**2).sum(axis=-1))
        if metric in ("chebyshev", "infinity"):
            return diff.max(axis=-1)
        if metric in ("manhattan", "cityblock", "l1"):
            return diff.sum(axis=-1)
        raise ValueError(metric)

    def judged(self, W, i, op):
        from sim import canon as C
        from sim import model as M
        from sim import ops as O

        g = W.grid("g0")
        coords, csys, metric = O.tree_defaults(op)
        sig = f"C11/{op['op']}[{op['type']},{coords},{csys},{metric}]"
        try:
            t = O.get_tree(g, op)
        except Exception as e:
            self.note_request(W, op)
            return ("exc", type(e).__name__), [V(sig + f"/exception({type(e).__name__})", i, f"tree request raised {type(e).__name__}: {str(e)[:200]}")]
        self.note_request(W, op)
        vs = self.check_params(t, op, i)
        if vs:
            return ("tree-params",), vs
        elon, elat, exyz = self.elements(W, coords, g)
        n = len(elon)
        if csys == "cartesian":
            # a Cartesian tree is built from the stored positions whatever their length: chord
            # lengths are judged against those (a source in km stays in km)
            sh = W.source("g0").shipped
            pre = {"nodes": "node", "face centers": "face", "edge centers": "edge"}[coords]
            scale = float((W.source("g0").spec.get("dialect") or {}).get("xyz_scale", 1.0))
            if all(f"{pre}_{a}" in sh for a in "xyz"):
                stored = np.stack([np.asarray(sh[f"{pre}_{a}"], dtype=float) for a in "xyz"], axis=-1)
                if stored.shape == exyz.shape and scale != 1.0:
                    exyz = stored
            elif scale != 1.0:
                W.cov["judged"] += 0
                return ("not-judged", "derived centres of a non-unit source"), []
        # query points
        pts = []
        for p in op["points"]:
            if isinstance(p, dict):
                j = p["elem"] % n
                if p.get("anti"):
                    lo_a = float(elon[j]) + 180.0
                    pts.append((lo_a - 360.0 if lo_a > 180.0 else lo_a, -float(elat[j])))
                else:
                    pts.append((float(elon[j]), float(elat[j])))
            else:
                pts.append((float(p[0]), float(p[1])))
        inrad = bool(op.get("in_radians"))
        if csys == "spherical":
            arr = np.array([(lo, la) if op["type"] == "ball" else (la, lo) for lo, la in pts], dtype=float)
            if inrad:
                arr = np.deg2rad(arr)
        else:
            arr = np.array([M.unit(lo, la) for lo, la in pts])
        if len(pts) == 1 and op.get("flat", True):
            arr = arr[0]
        # the caller owns the array it passes and may pass the same object again later
        pkey = (op["type"], csys, coords, inrad, repr(op["points"]))  # coords: {"elem": k} points resolve per element kind
        if op.get("reuse") and pkey in W.point_arrays:
            arr_in = W.point_arrays[pkey]
            if not np.array_equal(arr_in, arr):
                return ("points-modified",), [V(sig + "/query-modified-points", i, f"an earlier query changed the caller's point array in place: it now holds {np.round(np.asarray(arr_in).ravel()[:4], 6).tolist()} instead of {np.round(np.asarray(arr).ravel()[:4], 6).tolist()}")]
            W.fire("points_array_reused")
        else:
            arr_in = np.array(arr, dtype=np.float64)
            W.point_arrays[pkey] = arr_in
        unit_scale = 1.0 if (csys == "cartesian" or inrad) else 180.0 / math.pi  # returned distance unit
        W.cov["judged"] += 1
        if W.switched:
            W.cov["nontrivial"] = True
        eps = 1e-9
        if op["op"] == "query":
            k = op["k"]
            k = n if k == "n" else (max(1, n - 1) if k == "n-1" else max(1, min(n, int(k))))
            try:
                res = t.query(arr_in, k=k, in_radians=inrad, return_distance=bool(op.get("return_distance", True)))
            except Exception as e:
                return ("exc", type(e).__name__), [V(sig + f"/exception({type(e).__name__})", i, f"query raised {type(e).__name__}: {str(e)[:200]}")]
            if op.get("return_distance", True):
                d, ind = res
                d = np.asarray(d, dtype=float).reshape(len(pts), k)
            else:
                d, ind = None, res
            ind = np.asarray(ind).reshape(len(pts), k)
            out = ("q", C.canon(ind), None if d is None else C.canon(d))
            for pi, (lo, la) in enumerate(pts):
                dl, du = self.dist_bounds(op, elon, elat, exyz, lo, la)
                why = self.check_knn(ind[pi], None if d is None else d[pi] / unit_scale, dl, du, k, eps)
                if why:
                    return out, [V(sig + "/" + why[0], i, f"k={k} point(lon,lat)={lo, la} in_radians={inrad}: {why[1]}")]
            return out, []
        # radius
        r = float(op["r"])
        mode = op.get("mode", "ind")
        kw = {"in_radians": inrad}
        if mode == "count":
            kw["count_only"] = True
        elif mode in ("dist", "dist_sorted"):
            kw["return_distance"] = True
            kw["sort_results"] = mode == "dist_sorted"
        try:
            res = t.query_radius(arr_in, r, **kw)
        except Exception as e:
            return ("exc", type(e).__name__), [V(sig + f"/exception({type(e).__name__})", i, f"query_radius raised {type(e).__name__}: {str(e)[:200]}")]
        # unit of r: judged only where documented unambiguously
        if csys == "cartesian":
            r_nat = r
        elif op["type"] == "ball":
            r_nat = math.radians(r) if not inrad else None
        else:
            r_nat = r if inrad else None
        if mode == "count":
            cnt = np.atleast_1d(np.asarray(res)).astype(int)
            out = ("rc", C.canon(cnt))
            if r_nat is not None:
                for pi, (lo, la) in enumerate(pts):
                    dl, du = self.dist_bounds(op, elon, elat, exyz, lo, la)
                    lo_c, hi_c = int(np.sum(du < r_nat - eps)), int(np.sum(dl <= r_nat + eps))
                    if not (lo_c <= cnt[pi] <= hi_c):
                        return out, [V(sig + "/radius-count", i, f"r={r} point={lo, la}: count {cnt[pi]} not in [{lo_c},{hi_c}]")]
            return out, []
        if mode in ("dist", "dist_sorted"):
            d, ind = res
        else:
            d, ind = None, res
        if len(pts) == 1:
            ind = [np.asarray(ind)]
            d = None if d is None else [np.asarray(d)]
        out = ("r", tuple(C.canon(np.asarray(x)) for x in ind), None if d is None else tuple(C.canon(np.asarray(x, dtype=float)) for x in d))
        for pi, (lo, la) in enumerate(pts):
            dl, du = self.dist_bounds(op, elon, elat, exyz, lo, la)
            got = np.asarray(ind[pi]).astype(int).ravel()
            if len(set(got.tolist())) != len(got) or (len(got) and (got.min() < 0 or got.max() >= n)):
                return out, [V(sig + "/radius-indices", i, f"duplicate or out-of-range indices {got[:10]}")]
            if r_nat is not None:
                must = set(np.nonzero(du < r_nat - eps)[0].tolist())
                may = set(np.nonzero(dl <= r_nat + eps)[0].tolist())
                pspec = op["points"][pi]
                sh_ = W.source("g0").shipped
                stored64 = "node_lon" in sh_ and sh_["node_lon"].dtype.kind in "iu" or ("node_lon" in sh_ and sh_["node_lon"].dtype == np.float64 and sh_["node_lat"].dtype == np.float64)
                if isinstance(pspec, dict) and not pspec.get("anti") and coords == "nodes" and csys == "spherical" and metric == "haversine" and stored64 and not W.source("g0").spec.get("dialect", {}).get("lon360"):
                    # the query point is bit-identical to a stored node position: its distance is
                    # exactly 0 <= r for every r >= 0 (the ball is closed) - not a tie
                    must.add(pspec["elem"] % n)
                gs = set(got.tolist())
                if not must <= gs:
                    return out, [V(sig + "/radius-set", i, f"r={r} point={lo, la} in_radians={inrad}: missing elements {sorted(must - gs)[:8]} (brute force)")]
                if not gs <= may:
                    return out, [V(sig + "/radius-set", i, f"r={r} point={lo, la} in_radians={inrad}: returned elements outside the radius {sorted(gs - may)[:8]}")]
            if d is not None:
                dd = np.asarray(d[pi], dtype=float).ravel() / unit_scale
                for j, e in enumerate(got):
                    if not (dl[e] - 1e-7 <= dd[j] <= du[e] + 1e-7):
                        return out, [V(sig + "/distance-value", i, f"r={r} point={lo, la}: returned distance {dd[j]!r} for element {e}, true {dl[e]!r}")]
                if mode == "dist_sorted" and np.any(np.diff(dd) < -1e-12):
                    return out, [V(sig + "/order", i, "sort_results=True but distances are not non-decreasing")]
        return out, []

    @staticmethod
    def check_knn(ind, d, dl, du, k, eps):
        n = len(dl)
        ind = np.asarray(ind).astype(int)
        if len(set(ind.tolist())) != len(ind) or ind.min() < 0 or ind.max() >= n:
            return ("knn-indices", f"duplicate or out-of-range indices {ind.tolist()[:10]}")
        if d is not None:
            for j, e in enumerate(ind):
                if not (dl[e] - 1e-7 <= d[j] <= du[e] + 1e-7):
                    return ("distance-value", f"returned distance {d[j]!r} (tree units) for element {e}, brute force {dl[e]!r}")
            if np.any(np.diff(d) < -1e-12):
                return ("order", f"distances not non-decreasing: {d.tolist()[:6]}")
        # nearest-first order by true distance (ties aside)
        for a, b in zip(ind[:-1], ind[1:]):
            if dl[a] > du[b] + eps:
                return ("order", f"element {a} (d={dl[a]!r}) listed before nearer element {b} (d={du[b]!r})")
        kth_hi = np.sort(du)[k - 1]
        kth_lo = np.sort(dl)[k - 1]
        gs = set(ind.tolist())
        must = set(np.nonzero(du < kth_lo - eps)[0].tolist())
        if not must <= gs:
            m = sorted(must - gs)[:5]
            return ("knn-set", f"returned {ind.tolist()[:8]} but nearer elements {m} (d={[float(du[x]) for x in m]}) are missing; k-th distance {kth_lo!r}")
        for e in ind:
            if dl[e] > kth_hi + eps:
                return ("knn-set", f"returned element {e} at distance {dl[e]!r} is farther than the k-th nearest {kth_hi!r}")
        return None


PROFILE = Trees()
