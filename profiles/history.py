"""C08 — reading from a grid never changes what any grid reports (profile `history`).

Every public read-only call is both a perturbation and an observation.  Each step's canonical
outcome is compared, at that step, with the outcome of the same call on a freshly opened grid
in a pristine process of the same JIT configuration (reference table built by forking one
child per entry from the pristine zygote), and the module-level state of uxarray is compared
with the pristine snapshot.
"""

import math
import json
import os
import pickle

from sim import ops as O
from sim.profile import Profile, V

RULE = (
    "one run = seeded sequence (4-40 steps) of public read-only Grid calls drawn from a fixed per-source menu, interleaved "
    "over 1-3 grids (incl. two grids of the same source); every step is judged against a fresh-process reference and "
    "against the pristine module-state snapshot. non-trivial = at least one judged observation preceded by at least one "
    "fired perturbation (prior derivation / other-grid op / argument switch / failed op / chunk). distinct = different "
    "(source classes, multiset of (abstract grid-state before, op class) transitions) fingerprint."
)
ASSUMPTIONS = [
    "the value a pristine process returns for a call on a freshly opened grid is taken as the reference (C08 decides history independence, not absolute correctness)",
    "floats compared with rtol=atol=1e-9, NaN==NaN; Exodus time stamps excluded; storage class (numpy/dask) is not part of a value",
    "introspection properties (dims/sizes/coordinates/connectivity/descriptors/repr, export variable lists) judged by the superset rule the statement itself allows",
    "JIT-on prange threads are real OpenMP threads (uncontrolled); JIT-off prange is simulated",
]
COMPONENTS = {
    "real": ["uxarray (working tree of /repo)", "xarray", "numpy", "numba (JIT-on zygote)", "sklearn trees", "cartopy/shapely/spatialpandas/geopandas", "netCDF4 file reads"],
    "seam": ["order of operations + arguments (PRNG)", "numba.prange -> SimPrange (JIT-off)", "datetime.now in Exodus encoder -> SimClock", "dask scheduler -> synchronous", "process-global module state -> fork per run"],
    "uncontrolled": ["OpenMP threads of the JIT-compiled latitude scan (thread count is seeded, interleaving is not)"],
}
BUDGET = {"quick": {"off_runs": 500, "on_runs": 80, "timeout": 400, "hashseed_runs": 60}, "thorough": {"budget_s": 900, "hashseed_runs": 1}}

QUICK_SOURCES = ["qh", "mpas", "band", "band2", "mix", "cube", "mixe", "icox", "mixr"]
THOROUGH_SOURCES = QUICK_SOURCES + ["ico", "cap", "mpasd", "exo"]

CATALOGUE = {
    "qh": {"kind": "file", "path": "ugrid/quad-hexagon/grid.nc"},
    "mpas": {"kind": "file", "path": "mpas/QU/mesh.QU.1920km.151026.nc"},
    "mpasd": {"kind": "file", "path": "mpas/QU/mesh.QU.1920km.151026.nc", "use_dual": True},
    "exo": {"kind": "file", "path": "exodus/mixed/mixed.exo"},
    "band": {"kind": "mesh", "mesh": "band", "params": {"nx": 8, "ny": 3}, "prov": "topology"},
    "band2": {"kind": "mesh", "mesh": "band", "params": {"nx": 8, "ny": 3}, "prov": "topology"},
    "mix": {"kind": "mesh", "mesh": "mix", "params": {"lon_c": 176.0}, "prov": "topology", "dialect": {"fill": -1, "start": 1}},
    "mixe": {"kind": "mesh", "mesh": "mix", "params": {"lon_c": -120.0, "lat_c": -30.0}, "variant": 2, "prov": "topology", "dialect": {"fill": -1, "extra": ["edge_nodes", "edge_lonlat", "face_xyz"], "xyz_scale": 2.0, "edge_flip": True}},
    "mixr": {"kind": "mesh", "mesh": "mix", "params": {"lon_c": 178.0, "lat_c": 20.0}, "variant": 1, "prov": "topology", "dialect": {"fill": -1, "extra": ["edge_nodes"], "edge_flip": True}, "reencode": ["face_edge_connectivity", "face_lon"], "subset": [5, 0, 3, 1, 4]},
    "cube": {"kind": "mesh", "mesh": "cube", "params": {"n": 2}, "variant": 5, "prov": "ugrid_file", "dialect": {"lon360": True, "dtype": "int32", "start": 1}},
    "ico": {"kind": "mesh", "mesh": "ico", "params": {}, "prov": "vertices_xyz"},
    "icox": {"kind": "mesh", "mesh": "ico", "params": {}, "variant": 1, "prov": "vertices_xyz", "dialect": {"xyz_scale": 6371.0}},
    "cap": {"kind": "mesh", "mesh": "cap", "params": {}, "prov": "topology", "dialect": {"extra": ["node_xyz"], "xyz_scale": 2.0}},
}
SOURCE_WEIGHT = {"mpas": 3, "mpasd": 2, "mixe": 2, "mixr": 2, "qh": 2}
GEO = {  # per-source geographic menus
    "qh": {"boxes": [((-0.2, 0.3), (-0.2, 0.2)), ((-0.05, 0.4), (-0.3, 0.05))], "centers": [(0.0, 0.0), (0.3, 0.2)], "radii": [0.15, 0.4], "lats": [0.0, 0.1, -0.2]},
}
GEO_DEFAULT = {
    "boxes": [((-60.0, 60.0), (-45.0, 45.0)), ((150.0, -150.0), (-30.0, 60.0)), ((10.0, 100.0), (0.0, 85.0))],
    "centers": [(178.0, 5.0), (-45.0, -20.0), (20.0, 80.0)],
    "radii": [12.0, 35.0],
    "lats": [0.0, 12.5, -33.0, 70.0],
}
EMPTY_BOX = ((100.0, 100.001), (-89.9, -89.8))


def key_of(op):
    return json.dumps({k: v for k, v in op.items() if k not in ("g", "par", "threads")}, sort_keys=True)


def op_sig(op):
    n = op["op"]
    if n == "attr":
        return f"attr[{op['name']}]"
    if n in ("areas", "total_area"):
        return f"{n}[{op.get('rule')},{op.get('order')},latlon={op.get('latlon', True)}]"
    if n == "to_xarray":
        return f"{op.get('api', 'to_xarray')}[{op['fmt']}]"
    if n in ("gdf", "polyc", "linec"):
        return f"{n}[pe={op.get('pe')},proj={op.get('proj')},engine={op.get('engine')},cache={op.get('cache', True)},override={op.get('override', False)}]"
    if n == "tree":
        return f"tree[{op['type']},{op.get('coords')},{op.get('csys')},{op.get('metric')},reconstruct={op.get('reconstruct', False)}]"
    if n == "isel":
        return f"isel[{op['dim']}]"
    if n == "isel_attr":
        return f"isel[{op['dim']}].{op['name']}"
    if n in ("bbox", "bcircle", "knn"):
        return f"{n}[{op.get('element')}]"
    return n


def menu(sid):
    """Fixed, seed-independent list of calls for a catalogue source, grouped by class."""
    geo = GEO.get(sid, GEO_DEFAULT)
    m = {}
    m["attr"] = [{"op": "attr", "name": a} for a in O.VALUE_ATTRS]
    m["fail_attr"] = [{"op": "attr", "name": a} for a in O.FAILING_ATTRS]
    m["introspect"] = [{"op": "attr", "name": a} for a in O.INTROSPECTION]
    m["areas"] = [
        {"op": "areas", "rule": "triangular", "order": 4, "latlon": True},
        {"op": "areas", "rule": "gaussian", "order": 3, "latlon": True},
        {"op": "areas", "rule": "triangular", "order": 1, "latlon": False},
        {"op": "areas", "rule": "gaussian", "order": 5, "latlon": False},
        {"op": "total_area", "rule": "gaussian", "order": 4},
        {"op": "total_area", "rule": "triangular", "order": 4},
    ]
    m["encode"] = [
        {"op": "to_xarray", "fmt": "ugrid"},
        {"op": "to_xarray", "fmt": "exodus"},
        {"op": "to_xarray", "fmt": "scrip"},
        {"op": "to_xarray", "fmt": "ugrid", "api": "encode_as"},
    ]
    g = []
    for pe in ("exclude", "split", "ignore"):
        for proj in (None, "robinson"):
            for engine in ("spatialpandas", "geopandas"):
                g.append({"op": "gdf", "pe": pe, "proj": proj, "engine": engine, "cache": True, "override": False})
    g += [
        {"op": "gdf", "pe": "exclude", "proj": None, "engine": "spatialpandas", "cache": False, "override": False},
        {"op": "gdf", "pe": "exclude", "proj": "pc180", "engine": "geopandas", "cache": False, "override": True},
        {"op": "gdf", "pe": "exclude", "proj": "rob100", "engine": "spatialpandas", "cache": False, "override": False},
        {"op": "gdf", "pe": "ignore", "proj": "rob100", "engine": "geopandas", "cache": True, "override": False},
        {"op": "gdf", "pe": "ignore", "proj": None, "engine": "spatialpandas", "cache": True, "override": True, "ret_idx": True},
        {"op": "gdf", "pe": "exclude", "proj": None, "engine": "spatialpandas", "cache": True, "override": False, "ret_idx": True},
        {"op": "gdf", "pe": "ignore", "proj": None, "engine": "geopandas", "cache": True, "override": False, "ret_idx": True},
        {"op": "gdf", "pe": "exclude", "proj": "robinson", "engine": "spatialpandas", "cache": True, "override": False, "ret_idx": True},
    ]
    m["gdf"] = g
    p = []
    for pe in ("exclude", "split", "ignore"):
        for proj in (None, "robinson"):
            p.append({"op": "polyc", "pe": pe, "proj": proj, "cache": True, "override": False})
    p += [
        {"op": "polyc", "pe": "exclude", "proj": None, "cache": False, "override": False, "ret_idx": True},
        {"op": "polyc", "pe": "split", "proj": None, "cache": True, "override": True, "ret_idx": True},
        {"op": "polyc", "pe": "exclude", "proj": "pc180", "cache": False, "override": False},
        {"op": "polyc", "pe": "exclude", "proj": "rob100", "cache": True, "override": False},
        {"op": "polyc", "pe": "ignore", "proj": "ortho", "cache": False, "override": False, "ret_idx": True},
    ]
    m["polyc"] = p
    ln = []
    for pe in ("exclude", "split", "ignore"):
        for proj in (None, "robinson"):
            ln.append({"op": "linec", "pe": pe, "proj": proj, "cache": True, "override": False})
    ln += [{"op": "linec", "pe": "exclude", "proj": None, "cache": False, "override": False}, {"op": "linec", "pe": "ignore", "proj": "pc180", "cache": True, "override": True}, {"op": "linec", "pe": "exclude", "proj": "rob100", "cache": True, "override": False}, {"op": "linec", "pe": "split", "proj": "rob100", "cache": False, "override": False}]
    m["linec"] = ln
    t = []
    for coords in ("nodes", "face centers", "edge centers"):
        for rec in (False, True):
            t.append({"op": "tree", "type": "ball", "coords": coords, "csys": "spherical", "metric": "haversine", "reconstruct": rec})
            t.append({"op": "tree", "type": "ball", "coords": coords, "csys": "cartesian", "metric": "euclidean", "reconstruct": rec})
            t.append({"op": "tree", "type": "kd", "coords": coords, "csys": "cartesian", "metric": "minkowski", "reconstruct": rec})
            t.append({"op": "tree", "type": "kd", "coords": coords, "csys": "spherical", "metric": "minkowski", "reconstruct": rec})
    t += [{"op": "tree", "type": "ball"}, {"op": "tree", "type": "kd"}, {"op": "tree", "type": "kd", "coords": "face centers", "csys": "cartesian", "metric": "chebyshev"}]
    for coords in ("nodes", "face centers", "edge centers"):
        for me in ("chebyshev", "manhattan"):
            t.append({"op": "tree", "type": "kd", "coords": coords, "csys": "cartesian", "metric": me})
    m["tree"] = t
    m["chunk"] = [{"op": "chunk", "n_node": -1, "n_edge": -1, "n_face": -1}, {"op": "chunk", "n_node": 3, "n_edge": 4, "n_face": 2}]
    m["isel"] = [
        {"op": "isel", "dim": "n_face", "idx": [0]},
        {"op": "isel", "dim": "n_face", "idx": [2], "scalar": True},
        {"op": "isel", "dim": "n_face", "idx": [3, 0, 1]},
        {"op": "isel", "dim": "n_face", "idx": [7, 3, 0, 15, 1, 2]},
        {"op": "isel", "dim": "n_face", "idx": [], "all": True},
        {"op": "isel", "dim": "n_node", "idx": [1]},
        {"op": "isel", "dim": "n_node", "idx": [7, 0, 3]},
        {"op": "isel", "dim": "n_edge", "idx": [0, 5]},
        {"op": "isel", "dim": "n_edge", "idx": [2], "scalar": True},
    ]
    sa = []
    for dim, idx in (("n_face", [7, 3, 0, 15, 1, 2]), ("n_node", [5, 1]), ("n_edge", [0, 4, 2])):
        for a in ("edge_face_distances", "edge_node_distances", "face_areas", "n_edge", "face_edge_connectivity", "antimeridian_face_indices", "hole_edge_indices", "face_lon", "edge_x"):
            sa.append({"op": "isel_attr", "dim": dim, "idx": idx, "name": a})
    m["isel_attr"] = sa
    s = []
    for el in ("nodes", "face centers", "edge centers"):
        for lon, lat in geo["boxes"][:2]:
            s.append({"op": "bbox", "lon": list(lon), "lat": list(lat), "element": el})
        s.append({"op": "bcircle", "center": list(geo["centers"][0]), "r": geo["radii"][1], "element": el})
        s.append({"op": "knn", "center": list(geo["centers"][1]), "k": 3, "element": el})
        # a Cartesian centre goes through the grid's cached k-d tree (whatever metric it was last built with)
        lo_c, la_c = (math.radians(v) for v in geo["centers"][1])
        c3 = [math.cos(la_c) * math.cos(lo_c), math.cos(la_c) * math.sin(lo_c), math.sin(la_c)]
        s.append({"op": "knn", "center": c3, "k": 4, "element": el})
        s.append({"op": "knn", "center": c3, "k": 6, "element": el})
    s.append({"op": "knn", "center": list(geo["centers"][0]), "k": 1, "element": "face centers"})
    s.append({"op": "bbox", "lon": list(EMPTY_BOX[0]), "lat": list(EMPTY_BOX[1]), "element": "nodes"})  # fails by contract
    m["subset"] = s
    x = []
    for la in geo["lats"]:
        x.append({"op": "xsec", "lat": la})
        x.append({"op": "faces_at_lat", "lat": la})
        x.append({"op": "edges_at_lat", "lat": la})
    x.append({"op": "xsec", "lat": 89.99})  # usually no intersection: fails by contract
    m["xsec"] = x
    m["misc"] = [{"op": "dual"}, {"op": "copy"}, {"op": "validate"}]
    return m


# related operations share caches and side tables: after an operation the next one on the same
# grid is drawn from the same family with some probability (revisits are where stale state shows)
FAMILY = {
    "areas": ["areas", "attr:face_areas", "attr:face_jacobian"],
    "plot": ["gdf", "polyc", "linec", "attr:antimeridian_face_indices", "isel_attr:antimeridian_face_indices"],
    "edges": ["attr:edge_node_connectivity", "attr:face_edge_connectivity", "attr:edge_face_connectivity", "attr:n_edge", "attr:edge_lon", "attr:edge_x", "attr:edge_node_distances", "attr:edge_face_distances", "attr:hole_edge_indices", "attr:edge_node_z", "isel_attr:edge_face_distances", "isel_attr:face_edge_connectivity", "xsec"],
    "trees": ["tree", "subset"],
    "coords": ["attr:node_lon", "attr:node_x", "attr:face_lon", "attr:face_x", "attr:face_lat", "attr:node_z", "isel_attr:face_lon"],
}


def family_of(op):
    n = op["op"]
    key = n
    if n == "attr":
        key = "attr:" + op["name"]
    elif n == "isel_attr":
        key = "isel_attr:" + op["name"]
    elif n in ("total_area",):
        key = "areas"
    elif n in ("bbox", "bcircle", "knn"):
        key = "subset"
    elif n in ("faces_at_lat", "edges_at_lat"):
        key = "xsec"
    for fam, members in FAMILY.items():
        if key in members:
            return fam
    return None


def revisit_key(op):
    """Operations that address the same cache entry / the same computation, whatever their
    cache-control flags: used to come back to the arguments of an earlier step."""
    n = op["op"]
    if n in ("gdf", "polyc", "linec"):
        return (n, op.get("pe"), op.get("proj"), op.get("engine"))
    if n == "tree":
        return (n, op.get("type"), op.get("csys"), op.get("metric"))
    if n in ("areas", "total_area"):
        return ("areas", op.get("rule"), op.get("order"))
    if n in ("isel", "isel_attr"):
        return ("isel", op.get("dim"), tuple(op.get("idx") or ()))
    return None


def same_key_ops(menus_sid, key):
    return [o for lst in menus_sid.values() for o in lst if revisit_key(o) == key]


def family_ops(menus_sid, fam):
    out = []
    for cls, lst in menus_sid.items():
        for o in lst:
            if family_of(o) == fam:
                out.append(o)
    return out


CLASSES = ["attr", "fail_attr", "introspect", "areas", "encode", "gdf", "polyc", "linec", "tree", "chunk", "isel", "isel_attr", "subset", "xsec", "misc", "eq"]
CLASS_WEIGHT = {"attr": 6, "fail_attr": 1, "introspect": 2, "areas": 2, "encode": 3, "gdf": 3, "polyc": 3, "linec": 2, "tree": 4, "chunk": 1, "isel": 2, "isel_attr": 2, "subset": 2, "xsec": 2, "misc": 1, "eq": 1}


class History(Profile):
    name = "history"
    prop = "C08"

    def sources_for(self, tier):
        return THOROUGH_SOURCES if tier == "thorough" else QUICK_SOURCES

    def gen_cfg(self, tier, jit):
        return {"tier": tier, "jit": bool(jit), "sources": self.sources_for(tier), "max_steps": 40 if tier == "thorough" else 24}

    # ------------------------------------------------------------------
    def generate(self, rng, cfg):
        avoid = cfg.get("avoid") or {}
        sids = list(cfg["sources"])
        n_grids = rng.choice([1, 1, 2, 2, 3])
        chosen = []
        for i in range(n_grids):
            if i > 0 and rng.random() < 0.3:
                # a second grid from the same source as an earlier one
                prev = chosen[rng.randrange(len(chosen))]
                chosen.append({"band": "band2", "band2": "band"}.get(prev, prev))
            else:
                # sources that ship their own derived tables are where inherited-vs-derived state
                # can differ: draw them more often
                chosen.append(rng.choices(sids, weights=[SOURCE_WEIGHT.get(x, 1) for x in sids])[0])
        handles = [f"g{i}" for i in range(n_grids)]
        menus = {sid: menu(sid) for sid in set(chosen)}
        menu_keys = {sid: {key_of(o) for lst in m.values() for o in lst} for sid, m in menus.items()}
        # swarm: enabled classes
        classes = [c for c in CLASSES if rng.random() < 0.6 and c not in avoid.get("classes", [])]
        if not classes:
            classes = ["attr", "tree"]
        if "attr" not in classes and rng.random() < 0.7:
            classes.append("attr")
        n_steps = rng.randint(3, cfg["max_steps"])
        ops = []
        cur = 0
        for _ in range(n_steps):
            if n_grids > 1 and rng.random() < 0.35:
                cur = rng.randrange(n_grids)
            h, sid = handles[cur], chosen[cur]
            cls = rng.choices(classes, weights=[CLASS_WEIGHT[c] for c in classes])[0]
            prev = next((o for o in reversed(ops) if o.get("g") == h), None)
            fam = family_of(prev) if prev else None
            keyed = [revisit_key(o) for o in ops if o.get("g") == h and revisit_key(o) is not None]
            others = [o for o in ops if o.get("g") != h and o["op"] != "eq" and key_of(o) in menu_keys[sid]]
            if others and rng.random() < 0.15:
                # the very same request another grid of this process has just served (leaks between grids)
                op = {k: v for k, v in rng.choice(others).items() if k not in ("g", "par", "threads")}
            elif keyed and rng.random() < 0.2:
                # the same request as an earlier step of this grid (maybe with other cache flags)
                op = dict(rng.choice(same_key_ops(menus[sid], rng.choice(keyed))))
            elif fam and rng.random() < 0.3:
                op = dict(rng.choice(family_ops(menus[sid], fam)))
            elif cls == "eq":
                op = {"op": "eq", "other": handles[rng.randrange(n_grids)]}
            else:
                op = dict(rng.choice(menus[sid][cls]))
            op["g"] = h
            if op["op"] in ("xsec", "faces_at_lat", "edges_at_lat"):
                if cfg["jit"]:
                    op["threads"] = rng.choice([1, 2, 3, 5, 8])
                else:
                    op["par"] = {"workers": rng.choice([1, 2, 3, 4, 7, 16]), "mode": rng.choice(["chunked", "chunked", "permuted"]), "seed": rng.randrange(1000)}
            ops.append(op)
        return {
            "sources": {h: CATALOGUE[s] for h, s in zip(handles, chosen)},
            "source_ids": dict(zip(handles, chosen)),
            "ops": ops,
            "avoid": bool(avoid),
        }

    # ------------------------------------------------------------------
    # reference table
    # ------------------------------------------------------------------
    def ref_entry(self, sid, op, other_sid=None):
        from sim.profile import World

        trace = {"sources": {"g0": CATALOGUE[sid]}, "ops": []}
        if other_sid:
            trace["sources"]["g1"] = CATALOGUE[other_sid]
        W = World(trace, self._env)
        o = dict(op, g="g0")
        if other_sid:
            o["other"] = "g1"
        out, exc = O.apply_safe(W, o)
        if W._scratch:
            from sim import world as Wd

            Wd.rm_scratch(W._scratch)
        return {"out": out}

    def prepare(self, zy):
        self._env = zy.env
        tier = zy.job.get("tier", "quick")
        sids = self.sources_for(tier)
        entries = []
        for sid in sids:
            if sid == "band2":
                continue
            for cls, lst in menu(sid).items():
                for op in lst:
                    entries.append((sid, op, None))
        for a in sids:
            for b in sids:
                entries.append((a, {"op": "eq"}, b))
        import hashlib

        hh = hashlib.sha1()
        hh.update(json.dumps([(s, key_of(o), b) for s, o, b in entries], sort_keys=True).encode())
        hh.update(json.dumps(CATALOGUE, sort_keys=True).encode())
        # the table also depends on the harness code that opens sources and canonicalises values
        here = os.path.dirname(os.path.abspath(__file__))
        for fn in sorted(os.listdir(os.path.join(here, "..", "sim"))) + ["../profiles/history.py"]:
            fp = os.path.join(here, "..", "sim", fn)
            if fn.endswith(".py") and os.path.isfile(fp):
                with open(fp, "rb") as fh:
                    hh.update(fh.read())
        mh = hh.hexdigest()[:12]
        from sim.engine import scratch_base

        memo = os.path.join(scratch_base(), f"ref-C08-{zy.env['tree_hash']}-{'on' if zy.jit else 'off'}-{mh}.pkl")
        ref = None
        if os.path.exists(memo):
            try:
                with open(memo, "rb") as fh:
                    ref = pickle.load(fh)
            except Exception:
                ref = None
        if ref is None:
            ref = {}
            errors = []

            def on(k, rec):
                if "out" in rec:
                    ref[k] = rec["out"]
                else:
                    errors.append((k, rec.get("harness_error")))

            tasks = []
            for sid, op, b in entries:
                k = (sid, key_of(op), b)
                tasks.append((k, (sid, op, b)))
            zy.pool(tasks, self.ref_entry, on)
            if errors:
                raise RuntimeError(f"reference table: {len(errors)} entries failed, first: {errors[0]}")
            tmp = memo + f".{os.getpid()}"
            with open(tmp, "wb") as fh:
                pickle.dump(ref, fh, protocol=4)
            os.replace(tmp, memo)
        zy.info["ref_entries"] = len(ref)
        self.ref = ref

    def lookup(self, W, op):
        sid = W.trace["source_ids"][op["g"]]
        sid = {"band2": "band"}.get(sid, sid)
        if op["op"] == "eq":
            return self.ref[(sid, key_of({"op": "eq"}), W.trace["source_ids"][op["other"]])]
        return self.ref[(sid, key_of(op), None)]

    # ------------------------------------------------------------------
    def op_class(self, op):
        n = op["op"]
        if n == "attr":
            a = op["name"]
            return "attr:fail" if a in O.FAILING_ATTRS else ("introspect" if a in O.INTROSPECTION else "attr")
        return n

    def begin(self, W):
        W.last_grid = None
        W.last_args = {}
        W.fired_any = False

    def step(self, W, i, op):
        from sim import canon as C
        from sim import world as Wd

        # schedule seam
        if "par" in op:
            Wd.SimPrange.configure(op["par"]["workers"], op["par"]["mode"], op["par"]["seed"])
            k = f"sim:{op['par']['mode']}:{op['par']['workers']}"
            W.cov["par"][k] = W.cov["par"].get(k, 0) + 1
        if "threads" in op:
            import numba

            numba.set_num_threads(min(op["threads"], numba.config.NUMBA_NUM_THREADS))
            k = f"omp:{op['threads']}"
            W.cov["par"][k] = W.cov["par"].get(k, 0) + 1
        if op["op"] == "to_xarray" and op["fmt"] == "exodus":
            Wd.SimClock.advance(86400 * 3 + 17)
        want = self.lookup(W, op)
        out, exc = O.apply_safe(W, op)
        sig_base = f"C08/{op_sig(op)}"
        vs = []
        # judge
        W.cov["judged"] += 1
        if W.fired_any:
            W.cov["nontrivial"] = True
        why = self.compare(W, op, out, want)
        if why:
            kind = "mismatch"
            if isinstance(out, tuple) and out and out[0] == "exc" and not (isinstance(want, tuple) and want and want[0] == "exc"):
                kind = f"exception({out[1]})!=value"
            elif isinstance(want, tuple) and want and want[0] == "exc" and not (isinstance(out, tuple) and out and out[0] == "exc"):
                kind = f"value!=exception({want[1]})"
            elif isinstance(want, tuple) and want and want[0] == "exc":
                kind = f"exception({out[1]})!=exception({want[1]})"
            detail = f"{op_sig(op)} on {op['g']}({W.trace['source_ids'][op['g']]}) after {i} earlier steps: {why}"
            if exc is not None:
                detail += f" [{type(exc).__name__}: {str(exc)[:160]}]"
            vs.append(V(f"{sig_base}/{kind}", i, detail))
        bad = W.env["modstate"].diff()
        if bad and not vs:
            vs.append(V(f"C08/module-state/{','.join(bad)}", i, f"after {op_sig(op)}: " + "; ".join(f"{b}: {W.env['modstate'].describe(b)}" for b in bad)))
        # perturbation accounting (this step perturbs what follows)
        if isinstance(want, tuple) and want and want[0] == "exc":
            W.fire("failed_op")
            W.cov["failed_ops"] += 1
        elif op["op"] == "chunk":
            W.fire("storage_switch")
        elif op["op"] in ("tree", "gdf", "polyc", "linec", "areas", "total_area"):
            k = (op["g"], op["op"] if op["op"] != "tree" else "tree:" + op["type"])
            a = key_of(op)
            W.fire("arg_switch" if (k in W.last_args and W.last_args[k] != a) else "prior_derivation")
            W.last_args[k] = a
        else:
            W.fire("prior_derivation")
        if W.last_grid is not None and W.last_grid != op["g"]:
            W.fire("other_grid")
        W.last_grid = op["g"]
        W.fired_any = True
        return out, vs

    # ------------------------------------------------------------------
    def compare(self, W, op, out, want):
        from sim import canon as C

        n = op["op"]
        is_exc = lambda c: isinstance(c, tuple) and len(c) == 2 and c[0] == "exc"
        if is_exc(out) or is_exc(want):
            if is_exc(out) and is_exc(want):
                return None if out[1] == want[1] else f"raises {out[1]}, fresh grid raises {want[1]}"
            return f"raises {out[1]} where a fresh grid returns a value" if is_exc(out) else f"returns a value where a fresh grid raises {want[1]}"
        if n == "attr" and op["name"] in O.INTROSPECTION:
            return self.compare_introspection(op["name"], out, want)
        if n == "to_xarray" and op["fmt"] == "ugrid":
            return self.compare_ugrid_export(W, op, out, want)
        return C.same(out, want)

    def compare_introspection(self, name, out, want):
        if name == "repr":
            return None if isinstance(out, str) else "repr is not a string"
        if name in ("dims", "coordinates", "connectivity", "descriptors"):
            o, w = set(out[1]), set(want[1])
            if not w <= o:
                return f"{name} lost {sorted(w - o)}"
            extra = o - w
            allowed = O.DERIVABLE_DIMS if name == "dims" else O.DERIVABLE
            if not extra <= allowed:
                return f"{name} gained non-derivable {sorted(extra - allowed)}"
            return None
        if name == "sizes":
            o, w = dict(out[1]), dict(want[1])
            for k, v in w.items():
                if k not in o:
                    return f"sizes lost {k}"
                if o[k] != v:
                    return f"sizes[{k}] {o[k]} != {v}"
            extra = set(o) - set(w)
            if not extra <= O.DERIVABLE_DIMS:
                return f"sizes gained non-derivable {sorted(extra - O.DERIVABLE_DIMS)}"
            return None
        return None

    def compare_ugrid_export(self, W, op, out, want):
        from sim import canon as C

        ov, wv = dict(out[1]), dict(want[1])
        for k in wv:
            if k not in ov:
                return f"export lost variable {k}"
        sid = {"band2": "band"}.get(W.trace["source_ids"][op["g"]], W.trace["source_ids"][op["g"]])
        for k, v in ov.items():
            if v[0] == "topology":
                oa, wa = dict(v[1]), dict(wv[k][1]) if k in wv else {}
                for a, x in wa.items():
                    if oa.get(a) != x:
                        return f"topology attr {a}: {oa.get(a)!r} vs fresh {x!r}"
                # self-consistency of everything the topology names
                dims = dict(out[2])
                for a, x in oa.items():
                    if a.endswith("_connectivity") and x not in ov:
                        return f"topology names missing variable {a}={x}"
                    if a.endswith("_coordinates"):
                        for nm in x.split():
                            if nm not in ov:
                                return f"topology names missing coordinate {nm}"
                    if a.endswith("_dimension") and a != "topology_dimension" and x not in dims:
                        return f"topology names missing dimension {a}={x}"
                continue
            if k in wv:
                r = C.same(v, wv[k], path=k)
                if r:
                    return r
            else:
                if k not in O.DERIVABLE:
                    return f"export gained non-derivable variable {k}"
                ref = self.ref.get((sid, key_of({"op": "attr", "name": k}), None))
                if ref is not None and not (isinstance(ref, tuple) and ref and ref[0] == "exc"):
                    r = C.same(v, ref, path=k)
                    if r:
                        return f"derived variable in export differs from fresh value: {r}"
        return None


PROFILE = History()


def extra_checks(tier, base_seed):
    """The public JIT switch: a fresh interpreter started with NUMBA_DISABLE_JIT=1 only (no
    pre-seeding) must report what the JIT-on configuration reports for a fixed list of calls."""
    import subprocess
    import sys

    from sim import engine as E

    here = os.path.dirname(os.path.abspath(__file__))
    script = os.path.join(here, "jit_switch_probe.py")
    outs = {}
    for label, jit in (("on", True), ("off_public", False)):
        env = E.zygote_env(jit, 0, "env")
        p = subprocess.run([E.PY, script], env=env, capture_output=True, text=True, timeout=600)
        if p.returncode != 0:
            return {"coverage": {"jit_switch_probe": f"harness error ({label}): {p.stderr[-400:]}"}}
        outs[label] = json.loads(p.stdout.strip().splitlines()[-1])
    viols = []
    diffs = []
    def close(a, b):
        if isinstance(a, list) and isinstance(b, list):
            return len(a) == len(b) and all(close(x, y) for x, y in zip(a, b))
        if isinstance(a, float) and isinstance(b, float):
            return abs(a - b) <= 1e-9 + 1e-9 * abs(b)
        return a == b

    for k, v in outs["on"].items():
        w = outs["off_public"].get(k)
        if not close(v, w):
            diffs.append((k, str(v)[:80], str(w)[:80]))
    cov = {"jit_switch_probe": {"calls": len(outs["on"]), "differences": len(diffs)}}
    if diffs:
        k, v, w = diffs[0]
        sig = f"C08/config[NUMBA_DISABLE_JIT=1]/{k.split('|')[1]}/mismatch"
        viols.append(
            {
                "signature": sig,
                "seed": 0,
                "violation": {"signature": sig, "step": 0, "detail": f"{k}: JIT on -> {v}; NUMBA_DISABLE_JIT=1 -> {w} ({len(diffs)} calls differ)"},
                "trace": None,
                "config": {"jit": False, "jit_mech": "env", "hashseed": 0},
            }
        )
    f = E.load_findings("C08")
    known = {}
    keep = []
    for v in viols:
        if E.match_finding(f, v["signature"]):
            known[v["signature"]] = 1
        else:
            keep.append(v)
    return {"coverage": cov, "violations": keep, "known_hit": known}
