"""C04 — spherical and Cartesian coordinates always denote the same points (profile `coords`).

Which provenance branch of the coordinate population code runs depends on which variables
happen to be present at that moment, i.e. on the access history.  A run draws a source from the
provenance matrix, then a seeded order of first (and repeated) accesses of the 15 coordinate
properties, direct and through other public calls, with normalize_cartesian_coordinates()
thrown in; after EVERY step every coordinate variable the grid currently holds is read through
its public property and checked against an independent spherical<->Cartesian model."""

import numpy as np

from sim.profile import Profile, V

RULE = (
    "one run = one seeded source from the provenance matrix (nodes lon/lat | xyz | both; face and edge centres none | lon/lat | "
    "xyz | both; longitudes -180..180 | 0..360; unit or scaled xyz; sample SCRIP/MPAS/Exodus/UGRID files) + a seeded order (3-20 "
    "steps) of direct and indirect first accesses of the coordinate properties and normalize_cartesian_coordinates(); after every "
    "step invariants I1-I5 are evaluated over every coordinate variable present. non-trivial = at least two steps at which a coordinate "
    "representation had to be derived (so that the second derivation met the state the first one left). distinct = different (source class, multiset of (abstract grid "
    "state, op class)) fingerprint, i.e. provenance class x order of first accesses."
)
ASSUMPTIONS = [
    "independent model: (cos lon cos lat, sin lon cos lat, sin lat) in float64; angles via atan2(|a x b|, a.b)",
    "tolerance 1e-8 rad (the statement's rounding/pole-snap tolerance); within 2e-4 rad of a pole (the library's documented 1e-8-in-z snap zone) only the latitude is compared, and generators place no point strictly inside that zone",
    "I2 is evaluated only where at least one of the two representations was derived by the library (a source that ships both is responsible for their agreement)",
    "edge order is read from the grid's own edge_node_connectivity (edge construction is C02's business)",
    "after normalize_cartesian_coordinates() every Cartesian coordinate present must have unit length to 2e-5 (the library regards lengths within 1e-5 relative of 1 as already normalised; the statement fixes no precision) and unchanged direction",
]
COMPONENTS = {
    "real": ["uxarray coordinate population (_populate_node_latlon/_populate_node_xyz/_populate_face_centroids/_populate_edge_centroids), longitude range handling, normalize_cartesian_coordinates, and every public call used as an indirect access (bounds, trees, subset, distances, dual, areas, exodus encoder)"],
    "seam": ["order of first accesses and choice of direct/indirect route (PRNG)", "datetime in the Exodus encoder -> SimClock", "module state via fork per run"],
    "uncontrolled": [],
}
BUDGET = {"quick": {"off_runs": 600, "on_runs": 40, "timeout": 300}, "thorough": {"budget_s": 900}}

MESHES = [
    ("band", {"nx": 8, "ny": 3}),
    ("band", {"nx": 6, "ny": 2, "lon0": -180.0}),
    ("band", {"nx": 4, "ny": 2, "lon0": -179.9995, "lat0": -0.0005, "lat1": 60.0}),
    ("patch", {"nx": 7, "ny": 2, "lon0": -30.0, "lon1": 40.0, "lat0": -10.0, "lat1": 10.0}),
    ("patch", {"nx": 4, "ny": 3, "lon0": 150.0, "lon1": 200.0, "tri": 4}),
    ("mix", {"lon_c": 176.0}),
    ("mix", {"lon_c": 0.0005, "lat_c": 0.0}),
    ("cube", {"n": 2}),
    ("cap", {}),
    ("cap", {"n": 4, "south_face": False}),
    ("cap", {"n": 5, "south_face": False, "ring_lats": [89.98, 80.0]}),
    ("ico", {}),
    ("two", {}),
]
FILES = [
    {"kind": "file", "path": "scrip/outCSne8/outCSne8.nc"},
    {"kind": "file", "path": "mpas/QU/mesh.QU.1920km.151026.nc"},
    {"kind": "file", "path": "mpas/QU/mesh.QU.1920km.151026.nc", "use_dual": True},
    {"kind": "file", "path": "exodus/outCSne8/outCSne8.g"},
    {"kind": "file", "path": "exodus/mixed/mixed.exo"},
    {"kind": "file", "path": "ugrid/quad-hexagon/grid.nc"},
]
KINDS = ["node", "edge", "face"]
COORD_ATTRS = [f"{k}_{c}" for k in KINDS for c in ("lon", "lat", "x", "y", "z")]
INDIRECT = [
    {"via": "bounds"},
    {"via": "kd_tree", "coords": "face centers"},
    {"via": "kd_tree", "coords": "edge centers"},
    {"via": "ball_tree", "coords": "face centers"},
    {"via": "ball_tree", "coords": "nodes"},
    {"via": "bbox", "element": "edge centers"},
    {"via": "bbox", "element": "face centers"},
    {"via": "bbox_am", "element": "nodes"},
    {"via": "bbox_am", "element": "face centers"},
    {"via": "bbox_am", "element": "edge centers"},
    {"via": "edge_node_distances"},
    {"via": "edge_face_distances"},
    {"via": "dual"},
    {"via": "face_areas"},
    {"via": "areas_cart"},
    {"via": "exodus"},
    {"via": "antimeridian"},
    {"via": "edge_node_z"},
    {"via": "remap_self"},
]


def gen_source(rng):
    if rng.random() < 0.2:
        f = dict(rng.choice(FILES))
        if rng.random() < 0.3:
            f["twice"] = True
        return f
    name, params = rng.choice(MESHES)
    special = name in ("cap",) or params.get("lon0") in (-180.0, -179.9995) or params.get("lon_c") == 0.0005
    spec = {"kind": "mesh", "mesh": name, "params": params, "variant": rng.choice([0, 1, 2, 3]), "jitter": 0.0 if special else rng.choice([0.0, 0.3])}
    r = rng.random()
    if r < 0.75:
        spec["prov"] = "topology"
        extra = []
        if rng.random() < 0.45:
            extra.append("node_xyz")
        f = rng.choice(["none", "none", "lonlat", "xyz", "both"])
        if f in ("lonlat", "both"):
            extra.append("face_lonlat")
        if f in ("xyz", "both"):
            extra.append("face_xyz")
        e = rng.choice(["none", "none", "nodes", "lonlat", "xyz", "both"])
        if e != "none":
            extra.append("edge_nodes")
        if e in ("lonlat", "both"):
            extra.append("edge_lonlat")
        if e in ("xyz", "both"):
            extra.append("edge_xyz")
        spec["dialect"] = {
            "lon360": rng.random() < 0.4, "extra": extra, "xyz_scale": rng.choice([1.0, 1.0, 2.0, 6371.0, 0.5, 1.000003, 0.999996]),
            "centre_shift": rng.choice([0.0, 0.0, 0.15]), "edge_flip": rng.random() < 0.5, "centre_lon360": rng.random() < 0.3,
            "int_coords": rng.random() < 0.2,
        }
    elif r < 0.86:
        spec["prov"] = rng.choice(["vertices", "vertices_xyz", "vertices_xyz"])
        spec["dialect"] = {"xyz_scale": rng.choice([1.0, 1.0, 0.5, 2.0, 1.000003])}
        if spec["prov"] == "vertices_xyz" and rng.random() < 0.25:
            # Cartesian corners given as whole numbers typed int64: the cube (+-1, +-1, +-1)
            spec.update(mesh="cube", params={"n": 1}, jitter=0.0)
            spec["dialect"] = {"int_xyz": True}
    else:
        spec["prov"] = rng.choice(["ugrid_mem", "ugrid_mem_chunked", "ugrid_file", "esmf_mem"])
        spec["dialect"] = {"lon360": rng.random() < 0.5, "start": rng.choice([0, 1]), "chunks": rng.random() < 0.5}
        if spec["prov"] != "esmf_mem":
            spec["dialect"].update(as_coords=rng.random() < 0.35, ugrid_edges=rng.random() < 0.3, edge_flip=rng.random() < 0.5)
    if spec.get("kind") == "mesh" and rng.random() < 0.12:
        spec["reencode"] = rng.sample(["face_edge_connectivity", "face_lon", "edge_lon", "node_x", "face_x"], rng.randint(0, 3))
    if spec.get("kind") == "mesh" and rng.random() < 0.12:
        spec["subset"] = [rng.randrange(1000) for _ in range(rng.randint(1, 6))]
    return spec


class Coords(Profile):
    name = "coords"
    prop = "C04"

    def gen_cfg(self, tier, jit):
        return {"tier": tier, "jit": bool(jit), "max_steps": 20 if tier == "thorough" else 12}

    def generate(self, rng, cfg):
        src = gen_source(rng)
        n = rng.randint(3, cfg["max_steps"])
        ops = []
        for _ in range(n):
            r = rng.random()
            if r < 0.58:
                ops.append({"op": "attr", "name": rng.choice(COORD_ATTRS)})
            elif r < 0.62:
                ops.append({"op": "chunk", "n": rng.choice([-1, 3])})
            elif r < 0.66:
                ops.append({"op": "face_centers", "method": rng.choice(["cartesian average", "cartesian average", "welzl"]), "rs": rng.randrange(10**6)})
            elif r < 0.74:
                ops.append({"op": "normalize"})
            else:
                ops.append(dict(rng.choice(INDIRECT), op="indirect"))
        return {"sources": {"g0": src}, "ops": ops}

    def op_class(self, op):
        if op["op"] == "attr":
            return "attr:" + op["name"]
        if op["op"] == "face_centers":
            return "face_centers:" + op["method"]
        if op["op"] == "indirect":
            return "via:" + op["via"] + (":" + (op.get("coords") or op.get("element") or "") if (op.get("coords") or op.get("element")) else "")
        return op["op"]

    def begin(self, W):
        W.first = {k: 0 for k in KINDS}  # first accesses that derived something, per kind
        W.normalized = False
        W.before_norm = None
        W.face_repop = None  # method of the last successful construct_face_centers()

    # ------------------------------------------------------------------
    def step(self, W, i, op):
        from sim import canon as C
        from sim import world as Wd

        g = W.grid("g0")
        before = set(map(str, g._ds.variables))
        n = op["op"]
        out = ("ok",)
        try:
            if n == "attr":
                v = getattr(g, op["name"])
                out = C.canon(v)
            elif n == "normalize":
                W.before_norm = self.snapshot_xyz(g)
                g.normalize_cartesian_coordinates()
                W.normalized = True
            elif n == "chunk":
                g.chunk(n_node=op["n"], n_edge=op["n"], n_face=op["n"])
                W.fire("storage_switch")
            elif n == "face_centers":
                np.random.seed(op.get("rs", 0))
                g.construct_face_centers(op["method"])
                W.face_repop = op["method"]
                W.fire("face_centers_repopulated")
            else:
                self.indirect(W, g, op)
        except Exception as e:
            out = ("exc", type(e).__name__)
            if n == "attr":
                # a coordinate property of a valid grid must be computable
                return out, [V(f"C04/attr[{op['name']}]/exception({type(e).__name__})", i, f"Grid.{op['name']} raised {type(e).__name__}: {str(e)[:200]}")]
            if n == "normalize":
                return out, [V(f"C04/normalize/exception({type(e).__name__})", i, f"normalize_cartesian_coordinates raised {type(e).__name__}: {str(e)[:200]}")]
            if n == "face_centers" and op["method"] == "cartesian average":
                return out, [V(f"C04/face_centers/exception({type(e).__name__})", i, f"construct_face_centers('cartesian average') raised {type(e).__name__}: {str(e)[:200]}")]
        after = set(map(str, g._ds.variables))
        new = after - before
        for k in KINDS:
            if any(v.startswith(k + "_") and v.split("_")[1] in ("lon", "lat", "x", "y", "z") for v in new):
                W.first[k] += 1
                W.fire(f"derived:{k}")
                if sum(W.first.values()) >= 2:
                    W.cov["nontrivial"] = True
        W.cov["judged"] += 1
        vs = self.invariants(W, i, op)
        if n == "normalize" and not vs:
            vs = self.check_normalize(W, i)
        return out, vs

    def indirect(self, W, g, op):
        import uxarray as ux

        from sim import world as Wd

        via = op["via"]
        if via == "bounds":
            g.bounds
        elif via == "kd_tree":
            g.get_kd_tree(coordinates=op["coords"])
        elif via == "ball_tree":
            g.get_ball_tree(coordinates=op["coords"])
        elif via == "bbox":
            g.subset.bounding_box((-170.0, 175.0), (-80.0, 85.0), element=op["element"])
        elif via == "bbox_am":
            # a box given with descending longitudes spans the antimeridian
            g.subset.bounding_box((150.0, -150.0), (-85.0, 88.0), element=op["element"])
        elif via == "edge_node_distances":
            g.edge_node_distances
        elif via == "edge_face_distances":
            g.edge_face_distances
        elif via == "dual":
            g.get_dual()
        elif via == "face_areas":
            g.face_areas
        elif via == "areas_cart":
            g.compute_face_areas(latlon=False)
        elif via == "exodus":
            Wd.SimClock.advance(61)
            g.to_xarray("exodus")
        elif via == "antimeridian":
            g.antimeridian_face_indices
        elif via == "edge_node_z":
            g.edge_node_z
        elif via == "remap_self":
            da = ux.UxDataArray(np.arange(g.n_face, dtype=float), dims=["n_face"], uxgrid=g, name="v")
            da.remap.nearest_neighbor(g, remap_to="nodes", coord_type="cartesian")
        else:
            raise ValueError(via)

    # ------------------------------------------------------------------
    @staticmethod
    def present(g, kind):
        ds = g._ds
        has_ll = f"{kind}_lon" in ds and f"{kind}_lat" in ds
        has_xyz = all(f"{kind}_{c}" in ds for c in "xyz")
        return has_ll, has_xyz

    @staticmethod
    def read_ll(g, kind):
        return np.asarray(getattr(g, f"{kind}_lon").values, dtype=np.float64), np.asarray(getattr(g, f"{kind}_lat").values, dtype=np.float64)

    @staticmethod
    def read_xyz(g, kind):
        return np.stack([np.asarray(getattr(g, f"{kind}_{c}").values, dtype=np.float64) for c in "xyz"], axis=-1)

    def snapshot_xyz(self, g):
        out = {}
        for k in KINDS:
            if self.present(g, k)[1]:
                out[k] = self.read_xyz(g, k).copy()
        return out

    def invariants(self, W, i, op):
        from sim import model as M

        g = W.grid("g0")
        src = W.source("g0")
        sh = src.shipped
        ctx = self.op_class(op)
        POLE = 2e-4
        # a source that stores float32 coordinates gets float32 derived coordinates: "to rounding"
        # then means float32 rounding
        f32 = any(str(g._ds[n].dtype) == "float32" for n in g._ds.variables if str(n) in COORD_ATTRS)
        ANG = 2e-6 if f32 else 1e-8
        LEN = 1e-6 if f32 else 1e-12
        # corner-mean centres are only defined for nodes on one sphere
        on_sphere = True
        if "node_x" in sh:
            r = np.sqrt(sh["node_x"].astype(float) ** 2 + sh["node_y"].astype(float) ** 2 + sh["node_z"].astype(float) ** 2)
            on_sphere = bool(r.size == 0 or (r.max() - r.min()) <= 1e-9 * r.max())
        for kind in KINDS:
            has_ll, has_xyz = self.present(g, kind)
            shipped_ll = f"{kind}_lon" in sh
            shipped_xyz = f"{kind}_x" in sh
            src_had_centres = shipped_ll or shipped_xyz
            if kind == "face" and W.face_repop:
                # construct_face_centers() replaced whatever the source supplied
                shipped_ll = shipped_xyz = False
            if has_ll:
                lon, lat = self.read_ll(g, kind)
                # I1 ranges
                if np.any(~np.isfinite(lon)) or np.any(~np.isfinite(lat)):
                    return [V(f"C04/{kind}/non-finite-lonlat", i, f"{kind}_lon/{kind}_lat contain NaN/inf after {ctx} (provenance: shipped lon/lat={shipped_ll}, xyz={shipped_xyz})")]
                if lon.size and (lon.min() < -180.0 - 1e-12 or lon.max() > 180.0 + 1e-12):
                    return [V(f"C04/{kind}/lon-range", i, f"{kind}_lon in [{lon.min():.6f}, {lon.max():.6f}], outside [-180, 180], after {ctx} (shipped lon/lat={shipped_ll}, xyz={shipped_xyz})")]
                if lat.size and (lat.min() < -90.0 - 1e-12 or lat.max() > 90.0 + 1e-12):
                    return [V(f"C04/{kind}/lat-range", i, f"{kind}_lat in [{lat.min():.6f}, {lat.max():.6f}] outside [-90, 90] after {ctx}")]
                # I4 shipped lon/lat keep their position
                if shipped_ll:
                    d = M.angle_between(M.unit(lon, lat), M.unit(sh[f"{kind}_lon"].astype(float), sh[f"{kind}_lat"].astype(float)))
                    if d.size and d.max() > 1e-12:
                        return [V(f"C04/{kind}/shipped-lonlat-moved", i, f"source-supplied {kind} lon/lat moved by {d.max():.3g} rad after {ctx}")]
            if has_xyz:
                v = self.read_xyz(g, kind)
                if np.any(~np.isfinite(v)):
                    return [V(f"C04/{kind}/non-finite-xyz", i, f"{kind}_x/y/z contain NaN/inf after {ctx} (shipped lon/lat={shipped_ll}, xyz={shipped_xyz})")]
                ln = np.linalg.norm(v, axis=-1)
                if kind == "face" and W.face_repop and f"{kind}_x" in sh:
                    pass  # re-derived from the source's own Cartesian centres: they keep their length
                elif not shipped_xyz or W.normalized:
                    # I3 derived (or normalised) Cartesian coordinates have unit length
                    # supplied coordinates that normalize_cartesian_coordinates() regards as already
                    # normalised (its own closeness test, 1e-5 relative) may keep their length
                    if ln.size and np.max(np.abs(ln - 1.0)) > (2e-5 if shipped_xyz else LEN) and not (shipped_xyz and not W.normalized):
                        what = "derived" if not shipped_xyz else "normalised"
                        return [V(f"C04/{kind}/{what}-xyz-not-unit", i, f"{what} {kind}_x/y/z have length in [{ln.min():.12g}, {ln.max():.12g}] after {ctx} (shipped lon/lat={shipped_ll})")]
                if shipped_xyz:
                    sv = np.stack([sh[f"{kind}_{c}"].astype(float) for c in "xyz"], axis=-1)
                    d = M.angle_between(v, sv)
                    if d.size and d.max() > 1e-12:
                        return [V(f"C04/{kind}/shipped-xyz-direction-changed", i, f"source-supplied {kind} xyz changed direction by {d.max():.3g} rad after {ctx}")]
                    if not W.normalized and not np.array_equal(v, sv):
                        return [V(f"C04/{kind}/shipped-xyz-changed", i, f"source-supplied {kind} xyz changed value (max {np.max(np.abs(v - sv)):.3g}) without normalisation, after {ctx}")]
            if has_ll and has_xyz and not (shipped_ll and shipped_xyz):
                # I2 same direction
                u = M.unit(lon, lat)
                d = M.angle_between(v, u)
                near_pole = (np.abs(lat) > 90.0 - np.degrees(POLE)) | (np.abs(v[:, 2] / np.maximum(ln, 1e-300)) > np.cos(POLE))
                tol = np.where(near_pole, POLE * 1.01, ANG)
                bad = np.nonzero(d > tol)[0]
                if bad.size:
                    j = int(bad[np.argmax(d[bad])])
                    return [V(
                        f"C04/{kind}/lonlat-xyz-disagree",
                        i,
                        f"{kind} {j}: (lon, lat)=({lon[j]:.9f}, {lat[j]:.9f}) and xyz={np.round(v[j], 9).tolist()} are {d[j]:.3g} rad apart after {ctx} ({bad.size} elements; shipped lon/lat={shipped_ll}, xyz={shipped_xyz})",
                    )]
            # I5 derived centres are the normalised mean of the corner unit vectors
            if kind == "face" and W.face_repop:
                # after construct_face_centers() the centres are whatever that call made of them
                # (Welzl centres, or a re-derivation from Cartesian centres already stored): the
                # corner-mean clause speaks of centres the library derives on its own
                continue
            if kind != "node" and on_sphere and not shipped_ll and not shipped_xyz and (has_ll or has_xyz):
                m = src.model
                if kind == "face":
                    want = m.face_centres()
                else:
                    if "edge_node_connectivity" not in g._ds:
                        continue
                    pairs = [tuple(map(int, r)) for r in np.asarray(g._ds["edge_node_connectivity"].values)]
                    want = m.edge_centres(pairs)
                got = v if has_xyz else M.unit(lon, lat)
                if len(got) != len(want):
                    return [V(f"C04/{kind}/centre-count", i, f"{len(got)} {kind} centres for {len(want)} elements after {ctx}")]
                d = M.angle_between(got, want)
                wpole = np.abs(want[:, 2]) > np.cos(POLE)
                tol = np.where(wpole, POLE * 1.01, ANG)
                bad = np.nonzero(d > tol)[0]
                if bad.size:
                    j = int(bad[np.argmax(d[bad])])
                    return [V(f"C04/{kind}/centre-not-corner-mean", i, f"{kind} {j}: derived centre is {d[j]:.3g} rad from the normalised mean of its corner unit vectors after {ctx}")]
        # nodes: derived representation vs the model (which reads the shipped one)
        return []

    def check_normalize(self, W, i):
        from sim import model as M

        g = W.grid("g0")
        now = self.snapshot_xyz(g)
        for k, was in (W.before_norm or {}).items():
            if k not in now:
                return [V(f"C04/normalize/{k}-xyz-lost", i, f"{k} xyz disappeared in normalize_cartesian_coordinates")]
            v = now[k]
            d = M.angle_between(v, was)
            if d.size and d.max() > 1e-12:
                return [V(f"C04/normalize/{k}-direction-changed", i, f"normalize_cartesian_coordinates changed the direction of {k} xyz by {d.max():.3g} rad")]
            ln = np.linalg.norm(v, axis=-1)
            f32 = any(str(g._ds[f"{k}_{c}"].dtype) == "float32" for c in "xyz")
            if ln.size and np.max(np.abs(ln - 1.0)) > 2e-5:
                return [V(f"C04/normalize/{k}-not-unit", i, f"after normalize_cartesian_coordinates {k}_x/y/z have length in [{ln.min():.9g}, {ln.max():.9g}]")]
        return []


PROFILE = Coords()
