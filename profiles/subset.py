"""C09 — subsets and cross-sections are faithful, fully functional restrictions (profile `subset`).

History = derivations on the source grid, then selections (isel by face/node/edge indices,
bounding box / circle / nearest neighbours for the three element kinds, constant-latitude
cross-sections) through the Grid or the UxDataArray API with id-encoded data, under a seeded
schedule of the parallel latitude scan, then derivations on the RESULT.  Oracles: the mesh model
says which faces must be selected; corner positions, data attribution and every intrinsic
derived quantity are compared with an untouched twin of the source, restricted through
positions; incidence tables of the result are compared with the result's own mesh model."""

import math

import numpy as np

from sim.profile import Profile, V

RULE = (
    "one run = one seeded source (catalogue mesh x provenance incl. sources that ship their own edge tables and scaled xyz, or a "
    "sample file) + seeded prior derivations on it + 1-3 judged selections (isel face/node/edge with unsorted/scalar/single/all "
    "index sets, node/edge sets partly spelt with negative indices, bounding box incl. antimeridian-spanning, circle, k nearest, constant latitude incl. values bit-equal to a node "
    "latitude) through Grid or UxDataArray (face/node/edge-centred id-encoded data of rank 1-3), each followed by seeded derived "
    "accesses on the result; the latitude scan runs under a seeded simulated prange schedule (JIT off) or thread count (JIT on). "
    "non-trivial = a judged selection preceded by at least one derivation on the source and followed by at least one derived "
    "access on the result. distinct = different (source class, multiset of (abstract source state, op class)) fingerprint."
)
ASSUMPTIONS = [
    "mesh model of the source read from its three primary variables; reference points of centres as shipped, else the normalised corner mean; the source's edge numbering is read from the source grid itself",
    "region boundaries closer than 1e-6 deg (1e-9 in z for latitudes, unless bit-equal to a node latitude) to a reference point make that element optional",
    "quantities compared with the untouched twin restricted to the selection: corner positions, coordinates of nodes/edge centres/face centres, n_nodes_per_face, face_areas, bounds, edge_node_distances; incidence tables (edge_face, node_face, face_face, hole edges), which legitimately differ on a restriction, are compared with the result's own mesh model; edge_face_distances only has to be computable",
    "JIT-on thread interleavings are real OpenMP threads (uncontrolled); JIT-off prange is simulated at iteration granularity",
]
COMPONENTS = {
    "real": ["uxarray Grid.isel, slice.py, subset and cross-section accessors (Grid and UxDataArray), fast_constant_lat_intersections, every derived quantity computed on the result"],
    "seam": ["order/choice of derivations and selections (PRNG)", "numba.prange -> SimPrange (JIT off): workers 1..16, chunked or fully permuted", "numba.set_num_threads (JIT on, seeded count)", "module state via fork per run"],
    "uncontrolled": ["OpenMP interleaving inside the compiled latitude scan (JIT on)"],
}
BUDGET = {"quick": {"off_runs": 700, "on_runs": 40, "timeout": 420, "run_timeout": 180}, "thorough": {"budget_s": 900, "run_timeout": 300}}

MESHES = [
    ("band", {"nx": 8, "ny": 3}),
    ("band", {"nx": 6, "ny": 2, "lon0": -180.0}),
    ("patch", {"nx": 4, "ny": 3, "lon0": 150.0, "lon1": 200.0, "tri": 4}),
    ("patch", {"nx": 4, "ny": 3, "lon0": -35.0, "lon1": 45.0, "lat0": -30.0, "lat1": 30.0, "tri": 3}),
    ("mix", {"lon_c": 176.0}),
    ("mix", {"lon_c": -20.0, "lat_c": 50.0}),
    ("cube", {"n": 2}),
    ("ico", {}),
    ("cap", {}),
    ("two", {}),
]
FILES = [{"kind": "file", "path": "ugrid/quad-hexagon/grid.nc"}, {"kind": "file", "path": "mpas/QU/mesh.QU.1920km.151026.nc"}, {"kind": "file", "path": "mpas/QU/mesh.QU.1920km.151026.nc", "use_dual": True}, {"kind": "file", "path": "mpas/QU/mesh.QU.1920km.151026.nc", "subset": [5, 17, 3, 44, 60, 61, 100, 101, 9, 150]}]
SRC_DERIVE = [
    "n_edge", "edge_node_connectivity", "face_edge_connectivity", "edge_face_connectivity", "node_face_connectivity", "face_face_connectivity",
    "face_lon", "face_x", "edge_lon", "edge_x", "node_x", "face_areas", "bounds", "edge_node_distances", "edge_face_distances",
    "edge_node_z", "hole_edge_indices", "n_nodes_per_face", "antimeridian_face_indices",
]
RES_DERIVE = [
    "face_edge_connectivity", "edge_node_connectivity", "edge_face_connectivity", "node_face_connectivity", "face_face_connectivity",
    "hole_edge_indices", "n_edge", "face_lon", "face_lat", "face_x", "face_z", "edge_lon", "edge_lat", "edge_x", "node_x", "node_z", "node_lon",
    "n_nodes_per_face", "face_areas", "bounds", "edge_node_distances", "edge_face_distances", "antimeridian_face_indices", "edge_node_z",
]
KINDS = ["nodes", "face centers", "edge centers"]


def gen_source(rng):
    if rng.random() < 0.15:
        return dict(rng.choice(FILES))
    name, params = rng.choice(MESHES)
    spec = {"kind": "mesh", "mesh": name, "params": params, "variant": rng.choice([0, 1, 2, 3]), "jitter": rng.choice([0.0, 0.3])}
    r = rng.random()
    if r < 0.65:
        spec["prov"] = "topology"
        extra = []
        if rng.random() < 0.35:
            extra.append("node_xyz")
        if rng.random() < 0.3:
            extra.append(rng.choice(["face_lonlat", "face_xyz"]))
        if rng.random() < 0.35:
            extra += ["edge_nodes"] + ([rng.choice(["edge_lonlat", "edge_xyz"])] if rng.random() < 0.6 else [])
        spec["dialect"] = {"lon360": rng.random() < 0.3, "extra": extra, "start": rng.choice([0, 1]), "xyz_scale": rng.choice([1.0, 1.0, 1.0, 2.0]), "edge_flip": rng.random() < 0.5}
    elif r < 0.88:
        spec["prov"] = rng.choice(["vertices", "vertices_xyz", "vertices_xyz"])
    else:
        spec["prov"] = "ugrid_mem"
        spec["dialect"] = {"lon360": rng.random() < 0.5, "start": rng.choice([0, 1])}
        spec["dialect"].update(as_coords=rng.random() < 0.3, ugrid_edges=rng.random() < 0.4, edge_flip=rng.random() < 0.5)
    if rng.random() < 0.25:
        # the grid being sliced is itself the result of an earlier selection (nested subsets)
        spec["subset"] = [rng.randrange(1000) for _ in range(rng.randint(3, 12))]
    return spec


class CentreModified(Exception):
    pass


class Subset(Profile):
    name = "subset"
    prop = "C09"

    def gen_cfg(self, tier, jit):
        return {"tier": tier, "jit": bool(jit), "max_sel": 3 if tier == "thorough" else 2}

    # ------------------------------------------------------------------
    def gen_select(self, rng, cfg, prefer=()):
        how = rng.choice(["isel_face", "isel_face", "isel_node", "isel_edge", "bbox", "bbox", "bcircle", "knn", "xsec", "xsec", "faces_at_lat"])
        op = {"op": "select", "how": how}
        if how.startswith("isel"):
            op["idx"] = [rng.randrange(10**6) for _ in range(rng.choice([1, 1, 2, 3, 5, 9]))]
            op["mode"] = rng.choice(["list", "list", "array", "scalar", "all", "sorted"])
        elif how == "bbox":
            op["element"] = rng.choice(KINDS)
            if rng.random() < 0.4:
                a, b = sorted([round(rng.uniform(100.0, 179.5), 3), round(rng.uniform(-179.5, -100.0), 3)], reverse=True)
                op["lon"] = [a, b]  # spans the antimeridian
            else:
                a, b = sorted([round(rng.uniform(-179.0, 179.0), 3), round(rng.uniform(-179.0, 179.0), 3)])
                op["lon"] = [a, b if b - a > 1.0 else a + 40.0 if a + 40.0 < 180.0 else 179.5]
            c, d = sorted([round(rng.uniform(-88.0, 88.0), 3), round(rng.uniform(-88.0, 88.0), 3)])
            op["lat"] = [c, d if d - c > 1.0 else min(89.0, c + 30.0)]
        elif how in ("bcircle", "knn"):
            op["element"] = rng.choice(KINDS)
            op["center"] = [round(rng.uniform(-180.0, 180.0), 3), round(rng.uniform(-85.0, 85.0), 3)]
            op["center_elem"] = rng.randrange(10**6) if rng.random() < 0.5 else None  # centre near an element of the mesh
            op["r"] = rng.choice([3.0, 10.0, 25.0, 60.0, 180.0, 200.0])
            op["k"] = rng.choice([1, 2, 3, 5, 8, "n", "n"])
            op["cart"] = rng.random() < 0.3
            op["center_nd"] = rng.random() < 0.4  # the caller keeps its centre in a float64 ndarray and reuses it
        else:
            op["lat"] = round(rng.uniform(-80.0, 80.0), 3)
            op["lat_node"] = rng.randrange(10**6) if rng.random() < 0.4 else None  # bit-equal to a node's latitude
            if cfg["jit"]:
                op["threads"] = rng.choice([1, 2, 3, 5, 8, 16])
            else:
                op["par"] = {"workers": rng.choice([1, 2, 3, 4, 7, 16]), "mode": rng.choice(["chunked", "chunked", "permuted"]), "seed": rng.randrange(1000)}
        op["api"] = rng.choice(["grid", "uxda", "uxda"]) if how != "faces_at_lat" else "grid"
        if op["api"] == "uxda":
            lead = rng.choice([[], [], [2], [2, 3]])
            # position of the grid dimension among the others: last (usual), first or in between
            op["data"] = {"on": rng.choice(["face", "face", "node", "edge"]), "lead": lead, "axis": rng.choice([len(lead), len(lead), 0, rng.randrange(len(lead) + 1)])}
            op["data"]["dask"] = rng.random() < 0.3  # lazily evaluated (chunked) data
        k = rng.choice([0, 1, 2, 3, 5])
        op["after"] = [rng.choice(RES_DERIVE) for _ in range(k)]
        # what the source had derived before slicing is what a subset may wrongly inherit
        for nm in prefer:
            if nm in RES_DERIVE and rng.random() < 0.5:
                op["after"].append(nm)
        return op

    def generate(self, rng, cfg):
        src = gen_source(rng)
        ops = []
        for _ in range(rng.choice([0, 0, 1, 2, 4, 6])):
            if rng.random() < 0.25:
                # a tree request on the source: the subset accessors reuse the cached wrapper
                ops.append({"op": "derive", "name": "tree", "type": rng.choice(["ball", "ball", "kd"]), "coords": rng.choice(KINDS)})
            else:
                ops.append({"op": "derive", "name": rng.choice(SRC_DERIVE)})
        for s in range(rng.randint(1, cfg["max_sel"])):
            sel = self.gen_select(rng, cfg, [o["name"] for o in ops if o["op"] == "derive"])
            if rng.random() < 0.2:
                # inheritance probe: the same quantity derived on the source right before slicing and
                # read on the result right after (half of the time through an unsorted face list)
                x = rng.choice([nm for nm in SRC_DERIVE if nm in RES_DERIVE])
                ops.append({"op": "derive", "name": x})
                if rng.random() < 0.5 and sel["how"] != "faces_at_lat":
                    sel.update(how="isel_face", idx=[rng.randrange(10**6) for _ in range(rng.choice([3, 5, 9]))], mode="list")
                    for kk in ("element", "lon", "lat", "center", "center_elem", "r", "k", "cart", "center_nd", "lat_node", "par", "threads"):
                        sel.pop(kk, None)
                sel["after"] = list(sel.get("after") or []) + [x]
            if sel["how"] in ("knn", "bcircle") and rng.random() < 0.4:
                # the accessor will come BACK to a kind the cached tree wrapper served before
                # another kind (A -> B -> A on one wrapper)
                ttype = "kd" if sel.get("cart") else "ball"
                other = rng.choice([k for k in KINDS if k != sel["element"]])
                ops.append({"op": "derive", "name": "tree", "type": ttype, "coords": sel["element"]})
                ops.append({"op": "derive", "name": "tree", "type": ttype, "coords": other})
            ops.append(sel)
            if rng.random() < 0.4:
                ops.append({"op": "derive", "name": rng.choice(SRC_DERIVE)})
        return {"sources": {"g0": src}, "ops": ops}

    def simplify(self, op):
        if op["op"] == "select":
            if op.get("after"):
                for j in range(len(op["after"])):
                    yield dict(op, after=op["after"][:j] + op["after"][j + 1 :])
            if op.get("api") == "uxda":
                yield dict(op, api="grid")
            if op.get("data", {}).get("lead"):
                yield dict(op, data=dict(op["data"], lead=[]))

    def op_class(self, op):
        if op["op"] == "select":
            return f"select:{op['how']}:{op.get('element', '')}:{op.get('api')}"
        return "derive:" + op["name"] + (":" + op["type"] + ":" + op["coords"] if op["name"] == "tree" else "")

    def begin(self, W):
        W.twin = None
        W.src_derived = 0

    def twin(self, W):
        if W.twin is None:
            from sim import world as Wd

            W.twin = Wd.open_source(W.trace["sources"]["g0"], W.scratch)
        return W.twin.grid

    # ------------------------------------------------------------------
    def step(self, W, i, op):
        g = W.grid("g0")
        if op["op"] == "derive":
            try:
                if op["name"] == "tree":
                    (g.get_ball_tree if op["type"] == "ball" else g.get_kd_tree)(coordinates=op["coords"])
                else:
                    getattr(g, op["name"])
                out = ("derived",)
            except Exception as e:
                out = ("exc", type(e).__name__)
            W.src_derived += 1
            W.fire("prior_derivation")
            return out, []
        return self.judged(W, i, op)

    # ------------------------------------------------------------------
    # reference points and expected selections (mesh model only)
    # ------------------------------------------------------------------
    def source_edges(self, W):
        """The source's own edge numbering: list of node pairs (reads/derives it on the source,
        as any edge selection has to)."""
        g = W.grid("g0")
        return [tuple(sorted(map(int, r))) for r in np.asarray(g.edge_node_connectivity.values)]

    def ref_points(self, W, kind):
        from sim import world as Wd

        g = W.grid("g0")
        if kind == "edge centers":
            g.edge_node_connectivity  # the selection itself needs the edges
        lon, lat, xyz = Wd.element_lonlat(W.source("g0"), kind, g)
        return np.asarray(lon, dtype=float), np.asarray(lat, dtype=float), xyz

    def faces_of_elements(self, W, kind, elems):
        m = W.model("g0")
        elems = set(int(e) for e in elems)
        if kind == "face centers":
            return elems
        out = set()
        if kind == "nodes":
            for f, nodes in enumerate(m.faces):
                if elems & set(nodes):
                    out.add(f)
            return out
        pairs = self.source_edges(W)
        sel = {pairs[e] for e in elems}
        for f, fe in enumerate(m.face_edges()):
            if sel & set(fe):
                out.add(f)
        return out

    # ------------------------------------------------------------------
    def judged(self, W, i, op):
        import warnings

        import uxarray as ux

        from sim import model as M
        from sim import world as Wd

        g = W.grid("g0")
        m = W.model("g0")
        how = op["how"]
        sig = f"C09/{how}" + (f"[{op['element']}]" if "element" in op else "")
        W.cov["judged"] += 1
        if W.src_derived and op.get("after"):
            W.cov["nontrivial"] = True
        # schedule seam
        if "par" in op:
            Wd.SimPrange.configure(op["par"]["workers"], op["par"]["mode"], op["par"]["seed"])
            k = f"sim:{op['par']['mode']}:{op['par']['workers']}"
            W.cov["par"][k] = W.cov["par"].get(k, 0) + 1
            W.fire("par_schedule")
        if "threads" in op:
            import numba

            numba.set_num_threads(min(op["threads"], numba.config.NUMBA_NUM_THREADS))
            k = f"omp:{op['threads']}"
            W.cov["par"][k] = W.cov["par"].get(k, 0) + 1
            W.fire("par_schedule")
        # ---- expected selection ----
        try:
            must, may, order, call = self.expectation(W, op)
        except CentreModified as e:
            return ("centre-modified",), [V(f"{sig}/caller-centre-modified", i, str(e))]
        # ---- data ----
        da = None
        if op.get("api") == "uxda":
            da, derr = self.make_data(W, g, op["data"])
            if da is None:
                return ("skip", derr), []
        # ---- the call ----
        try:
            with warnings.catch_warnings():
                warnings.simplefilter("ignore")
                res = call(da if da is not None else g, da is not None)
        except Exception as e:
            if not must:
                W.fire("failed_op")
                W.cov["failed_ops"] += 1
                return ("exc", type(e).__name__), []
            return ("exc", type(e).__name__), [V(f"{sig}/exception({type(e).__name__})", i, f"{how} {self.args_str(op)} raised {type(e).__name__}: {str(e)[:200]} although faces {sorted(must)[:8]} are selected")]
        if how == "faces_at_lat":
            got = [int(x) for x in np.atleast_1d(np.asarray(res)).ravel()]
            why = self.check_set(got, must, may)
            if why:
                return ("faces", tuple(got)), [V(f"{sig}/selection", i, f"get_faces_at_constant_latitude({op['_lat']!r}) {self.sched_str(op)}: {why}")]
            return ("faces", tuple(got)), []
        sub = res.uxgrid if da is not None else res
        # ---- selected faces ----
        ds = sub._ds
        if "subgrid_face_indices" not in ds:
            return ("no-indices",), [V(f"{sig}/no-source-indices", i, "the result does not record its source face indices")]
        sf = [int(x) for x in np.atleast_1d(np.asarray(ds["subgrid_face_indices"].values)).ravel()]
        out = ("sub", tuple(sf))
        why = self.check_set(sf, must, may)
        if why:
            return out, [V(f"{sig}/selection", i, f"{how} {self.args_str(op)} {self.sched_str(op)}: {why}")]
        if order is not None and sf != order:
            return out, [V(f"{sig}/order", i, f"{how} {self.args_str(op)}: faces come in order {sf[:10]} instead of the requested {order[:10]}")]
        sm = Wd.aligned_model(sub)
        if sm.n_face != len(sf):
            return out, [V(f"{sig}/face-count", i, f"{sm.n_face} faces but {len(sf)} recorded source indices")]
        sp, mp = sm.xyz(), m.xyz()
        for j, f in enumerate(sf):
            a, b = sp[sm.faces[j]], mp[m.faces[f]]
            if len(a) != len(b) or np.max(M.angle_between(a, b)) > 1e-9:
                if len(a) == len(b) and M.cyclic_equal(b, a, 1e-9):
                    continue
                return out, [V(f"{sig}/face-corners", i, f"face {j} of the result (source face {f}) does not have that face's corner positions")]
        # node / edge maps by recorded indices, verified by position
        sn = [int(x) for x in np.atleast_1d(np.asarray(ds["subgrid_node_indices"].values)).ravel()] if "subgrid_node_indices" in ds else None
        if sn is None or len(sn) != sm.n_node or (len(sn) and np.max(M.angle_between(sp, mp[sn])) > 1e-9):
            return out, [V(f"{sig}/node-indices", i, "recorded source node indices do not name the nodes of the result (by position)")]
        # ---- data attribution ----
        if da is not None:
            why = self.check_data(W, op, res, sub, sm, sf, sn)
            if why:
                return out, [V(f"{sig}/data[{op['data']['on']}]/{why[0]}", i, f"{how} {self.args_str(op)} on {op['data']['on']}-centred data {tuple(op['data']['lead'])}: {why[1]}")]
        # ---- derived quantities on the result (an empty selection has nothing to derive) ----
        for name in (op.get("after") or []) if sf else []:
            W.fire("derive_on_result")
            why = self.check_derived(W, sub, sm, sf, sn, name)
            if why:
                return out, [V(f"C09/result.{name}/{why[0]}", i, f"after {how} {self.args_str(op)} (source had derived {W.src_derived} quantities): {why[1]}")]
        return out, []

    @staticmethod
    def args_str(op):
        keys = [k for k in ("idx_resolved", "mode", "element", "lon", "lat", "_lat", "center", "_center", "r", "k", "cart", "api") if k in op]
        return "(" + ", ".join(f"{k.lstrip('_')}={op[k]!r}" for k in keys) + ")"

    @staticmethod
    def sched_str(op):
        if "par" in op:
            return f"[simulated prange: {op['par']}]"
        if "threads" in op:
            return f"[numba threads: {op['threads']}]"
        return ""

    @staticmethod
    def check_set(got, must, may):
        if len(set(got)) != len(got):
            return f"duplicate faces in {got[:12]}"
        gs = set(got)
        if not must <= gs:
            return f"faces {sorted(must - gs)[:8]} should be selected but are missing (got {sorted(gs)[:12]})"
        if not gs <= may:
            return f"faces {sorted(gs - may)[:8]} are selected but should not be (expected {sorted(must)[:12]})"
        return None

    # ------------------------------------------------------------------
    def expectation(self, W, op):
        """(must, may, order or None, call(obj, is_uxda))"""
        from sim import model as M

        g = W.grid("g0")
        m = W.model("g0")
        how = op["how"]
        if how.startswith("isel"):
            dim = {"isel_face": "n_face", "isel_node": "n_node", "isel_edge": "n_edge"}[how]
            n = {"isel_face": m.n_face, "isel_node": m.n_node}.get(how)
            if n is None:
                n = len(self.source_edges(W))
            idx = [x % n for x in op["idx"]]
            seen, uniq = set(), []
            for x in idx:
                if x not in seen:
                    seen.add(x)
                    uniq.append(x)
            idx = uniq
            mode = op["mode"]
            if mode == "all":
                idx = list(range(n))
            elif mode == "sorted":
                idx = sorted(idx)
            elif mode == "scalar":
                idx = idx[:1]
            op["idx_resolved"] = idx[:12]
            pos = list(idx)
            # node/edge selections: a third of the list/array index sets name every other element from the
            # end (numpy's negative indices) - same elements, so the model is unchanged.  Decided from the
            # generated numbers themselves, no extra PRNG draw, so histories of earlier rounds are unchanged.
            # (Face selections are left alone: the recorded source indices would echo the negative spelling.)
            if how != "isel_face" and mode in ("list", "array") and sum(op["idx"]) % 3 == 0:
                pos = [x - n if i % 2 else x for i, x in enumerate(idx)]
                op["negative_spelling"] = True
            arg = pos[0] if mode == "scalar" else (np.array(pos) if mode == "array" else list(pos))
            kind = {"isel_face": "face centers", "isel_node": "nodes", "isel_edge": "edge centers"}[how]
            faces = self.faces_of_elements(W, kind, idx)
            order = list(idx) if how == "isel_face" else None
            return faces, faces, order, (lambda o, isda: o.isel(**{dim: arg}))
        if how == "bbox":
            lon, lat, _ = self.ref_points(W, op["element"])
            lo, la = op["lon"], op["lat"]
            eps = 1e-6
            if lo[0] > lo[1]:
                in_lon = (lon > lo[0] + eps) | (lon < lo[1] - eps)
                amb_lon = (np.abs(lon - lo[0]) <= eps) | (np.abs(lon - lo[1]) <= eps)
            else:
                in_lon = (lon > lo[0] + eps) & (lon < lo[1] - eps)
                amb_lon = (np.abs(lon - lo[0]) <= eps) | (np.abs(lon - lo[1]) <= eps)
            in_lat = (lat > la[0] + eps) & (lat < la[1] - eps)
            amb_lat = (np.abs(lat - la[0]) <= eps) | (np.abs(lat - la[1]) <= eps)
            # a pole has no longitude
            pole = np.abs(np.abs(lat) - 90.0) < 1e-9
            sure = in_lon & in_lat & ~pole
            maybe = (in_lon | amb_lon | pole) & (in_lat | amb_lat)
            must = self.faces_of_elements(W, op["element"], np.nonzero(sure)[0])
            may = self.faces_of_elements(W, op["element"], np.nonzero(maybe)[0])
            el = op["element"]
            return must, may, None, (lambda o, isda: o.subset.bounding_box(tuple(lo), tuple(la), element=el))
        if how in ("bcircle", "knn"):
            lon, lat, xyz = self.ref_points(W, op["element"])
            c = list(op["center"])
            if op.get("center_elem") is not None and len(lon):
                j = op["center_elem"] % len(lon)
                c = [round(float(lon[j]) + 0.37, 3), round(float(np.clip(lat[j] - 0.21, -89.0, 89.0)), 3)]
                if c[0] > 180.0:
                    c[0] -= 360.0
            op["_center"] = c
            cv = M.unit(c[0], c[1])
            d = np.degrees(M.gc_dist(xyz, cv[None, :]))
            el = op["element"]
            # a Cartesian centre addresses the k-d tree on the grid's Cartesian coordinates: only
            # meaningful (and only generated) when those lie on the unit sphere
            spec = W.trace["sources"]["g0"]
            cart = bool(op.get("cart")) and float((spec.get("dialect") or {}).get("xyz_scale", 1.0)) == 1.0 and spec.get("kind") != "file"
            op["cart"] = cart
            center = tuple(float(x) for x in cv) if cart else tuple(c)
            if op.get("center_nd"):
                # one array object for a warm-up call and for the judged call; it must come back unchanged
                center = np.array(center, dtype=np.float64)
                keep = center.copy()
                try:
                    g.subset.nearest_neighbor(center, k=1, element=el)
                except Exception:
                    pass
                if not np.array_equal(center, keep):
                    raise CentreModified(f"a subset call changed the caller's centre array from {keep.tolist()} to {center.tolist()}")
            if how == "bcircle":
                r = op["r"]
                if cart:
                    # Cartesian centre -> k-d tree -> the radius is a chord length
                    dd = M.chord(xyz, cv[None, :])
                    r = round(2.0 * math.sin(math.radians(op["r"]) / 2.0), 6)
                    sure, maybe = dd < r - 1e-9, dd <= r + 1e-9
                else:
                    sure, maybe = d < r - 1e-7, d <= r + 1e-7
                must = self.faces_of_elements(W, el, np.nonzero(sure)[0])
                may = self.faces_of_elements(W, el, np.nonzero(maybe)[0])
                return must, may, None, (lambda o, isda: o.subset.bounding_circle(center, r, element=el))
            k = len(d) if op["k"] == "n" else max(1, min(int(op["k"]), len(d)))
            ds_ = np.sort(d)
            kth = ds_[k - 1]
            sure = d < kth - 1e-7
            maybe = d <= kth + 1e-7
            if sure.sum() + (maybe & ~sure).sum() > k and (maybe & ~sure).sum() > (k - sure.sum()):
                pass  # ties at the k-th distance: any of them may be chosen
            must = self.faces_of_elements(W, el, np.nonzero(sure)[0])
            may = self.faces_of_elements(W, el, np.nonzero(maybe)[0])
            if (maybe & ~sure).sum() == (k - sure.sum()):
                must = may
            return must, may, None, (lambda o, isda: o.subset.nearest_neighbor(center, k=k, element=el))
        # constant latitude
        la = float(op["lat"])
        if op.get("lat_node") is not None:
            la = float(m.lat[op["lat_node"] % m.n_node])
            if abs(la) >= 90.0:
                la = float(op["lat"])
        op["_lat"] = la
        zc = float(np.sin(np.deg2rad(la)))
        z = np.sin(np.deg2rad(m.lat))
        dz = z - zc
        near = np.abs(dz) <= 1e-9
        # side of each node: +1 / -1 when clear; 0 when the node is ON the parallel (its z is
        # bit-equal to sin(lat) as the scan itself computes them - decidable only in the JIT-off
        # configuration, where both sides come from the same numpy routines); None when undecidable
        side = [None] * m.n_node
        on_parallel = np.zeros(m.n_node, dtype=bool)
        if near.any() and not W.jit:
            zl = np.asarray(g.node_z.values, dtype=np.float64)
            rad = np.sqrt(np.asarray(g.node_x.values, dtype=np.float64) ** 2 + np.asarray(g.node_y.values, dtype=np.float64) ** 2 + zl**2)
            if np.all(np.abs(rad - 1.0) <= 1e-8):
                on_parallel = near & (zl == zc)
        for nn in range(m.n_node):
            if not near[nn]:
                side[nn] = 1 if dz[nn] > 0 else -1
            elif on_parallel[nn]:
                side[nn] = 0
        must, may = set(), set()
        for f, nodes in enumerate(m.faces):
            k = len(nodes)
            for j in range(k):
                sa, sb = side[nodes[j]], side[nodes[(j + 1) % k]]
                if sa is None or sb is None:
                    if sa != 0 and sb != 0:
                        may.add(f)
                elif sa * sb < 0:
                    must.add(f)
                    may.add(f)
        if op["how"] == "faces_at_lat":
            return must, may, None, (lambda o, isda: o.get_faces_at_constant_latitude(la))
        return must, may, None, (lambda o, isda: o.cross_section.constant_latitude(la))

    # ------------------------------------------------------------------
    def make_data(self, W, g, spec):
        import uxarray as ux

        on = spec["on"]
        try:
            n = {"face": g.n_face, "node": g.n_node, "edge": g.n_edge}[on]
        except Exception as e:
            return None, type(e).__name__
        lead = list(spec.get("lead") or [])
        base = np.arange(n, dtype=np.float64)
        arr = base
        dims = [f"n_{on}"]
        if lead:
            grid_ = np.zeros(lead + [n])
            it = np.ndindex(*lead)
            for li, ix in enumerate(it):
                grid_[ix] = base + 1e6 * (li + 1)
            arr = grid_
            dims = [f"d{k}" for k in range(len(lead))] + dims
            ax = min(int(spec.get("axis", len(lead))), len(lead))
            if ax != len(lead):
                arr = np.moveaxis(arr, -1, ax)
                dims = dims[:-1]
                dims.insert(ax, f"n_{on}")
        da = ux.UxDataArray(arr, dims=dims, uxgrid=g, name="v")
        if spec.get("dask"):
            da = da.chunk({f"n_{on}": max(1, n // 3)})
            if getattr(da, "uxgrid", None) is not g:
                da = ux.UxDataArray(da, uxgrid=g)
        return da, None

    def check_data(self, W, op, res, sub, sm, sf, sn):
        from sim import model as M

        on = op["data"]["on"]
        lead = list(op["data"].get("lead") or [])
        vals = np.asarray(res.values)
        dim = f"n_{on}"
        if dim not in res.dims:
            return ("dims", f"result dims {res.dims} lack {dim}")
        want_dims = [f"d{k}" for k in range(len(lead))]
        want_dims.insert(min(int(op["data"].get("axis", len(lead))), len(lead)) if lead else 0, dim)
        if list(map(str, res.dims)) != want_dims:
            return ("dims", f"result dims {tuple(res.dims)}, expected {tuple(want_dims)}")
        if vals.ndim != len(want_dims):
            return ("shape", f"result data has {vals.ndim} axes for dims {tuple(res.dims)}")
        vals = np.moveaxis(vals, list(map(str, res.dims)).index(dim), -1)
        want_n = {"face": len(sf), "node": len(sn)}.get(on)
        if on == "edge":
            try:
                want_n = int(sub.n_edge)
            except Exception as e:
                return ("n_edge", f"n_edge of the result raised {type(e).__name__}")
        if vals.shape != tuple(lead + [want_n]):
            return ("shape", f"result data shape {vals.shape}, expected {tuple(lead + [want_n])}")
        if want_n == 0:
            return None  # an empty selection (already judged as a set) carries no data
        flat = vals.reshape(-1, want_n)
        ids = np.rint(flat[0] - (1e6 if lead else 0.0)).astype(int)
        for li in range(flat.shape[0]):
            off = 1e6 * (li + 1) if lead else 0.0
            if not np.array_equal(np.rint(flat[li] - off).astype(int), ids) or np.max(np.abs(flat[li] - off - ids)) > 1e-6:
                return ("leading-index", f"values along the leading index {li} do not belong to the same elements as index 0")
        if on == "face":
            if list(ids) != list(sf):
                bad = [j for j in range(len(sf)) if ids[j] != sf[j]][:5]
                return ("attribution", f"result faces {bad} carry the values of source faces {[int(ids[j]) for j in bad]} but are source faces {[sf[j] for j in bad]}")
            return None
        if on == "node":
            if list(ids) != list(sn):
                bad = [j for j in range(len(sn)) if ids[j] != sn[j]][:5]
                return ("attribution", f"result nodes {bad} carry the values of source nodes {[int(ids[j]) for j in bad]} but are (by position) source nodes {[sn[j] for j in bad]}")
            return None
        # edges: the value names a source edge; it must join the same two positions
        src_pairs = self.source_edges(W)
        try:
            sub_pairs = [tuple(sorted(map(int, r))) for r in np.asarray(sub.edge_node_connectivity.values)]
        except Exception as e:
            return ("edge_node_connectivity", f"edge_node_connectivity of the result raised {type(e).__name__}: {str(e)[:120]}")
        for k, e in enumerate(ids):
            if not (0 <= e < len(src_pairs)):
                return ("attribution", f"result edge {k} carries a value of no source edge ({e})")
            a, b = sub_pairs[k]
            if tuple(sorted((sn[a], sn[b]))) != src_pairs[e]:
                return ("attribution", f"result edge {k} joins source nodes {tuple(sorted((sn[a], sn[b])))} but carries the value of source edge {e} = {src_pairs[e]}")
        return None

    # ------------------------------------------------------------------
    def check_derived(self, W, sub, sm, sf, sn, name):
        """None or (kind, why)."""
        from sim import model as M

        tw = self.twin(W)
        if name in ("bounds", "face_areas", "edge_face_distances", "edge_node_distances"):
            try:
                getattr(tw, name)
            except Exception:
                return None  # the untouched source cannot compute it either: nothing to agree with
        try:
            val = getattr(sub, name)
        except Exception as e:
            return (f"exception({type(e).__name__})", f"{name} on the result raised {type(e).__name__}: {str(e)[:200]}")
        INT_FILL = np.iinfo(np.intp).min
        v = np.asarray(val.values if hasattr(val, "values") else val)

        def twin_val(nm):
            t = getattr(tw, nm)
            return np.asarray(t.values if hasattr(t, "values") else t)

        def close(a, b, what, rtol=1e-9, atol=1e-9):
            a, b = np.asarray(a, dtype=float), np.asarray(b, dtype=float)
            if a.shape != b.shape:
                return ("shape", f"{what}: shape {a.shape} vs source restricted {b.shape}")
            if not np.allclose(a, b, rtol=rtol, atol=atol, equal_nan=True):
                return ("mismatch", f"{what} differs from the source's value restricted to the selection (max abs diff {np.nanmax(np.abs(a - b)):.3g})")
            return None

        # result edge -> source edge through node pairs
        def edge_map():
            src_pairs = {p: e for e, p in enumerate([tuple(sorted(map(int, r))) for r in twin_val("edge_node_connectivity")])}
            sub_pairs = [tuple(sorted(map(int, r))) for r in np.asarray(sub.edge_node_connectivity.values)]
            out = []
            for a, b in sub_pairs:
                key = tuple(sorted((sn[a], sn[b])))
                if key not in src_pairs:
                    return None, f"result edge {(a, b)} = source nodes {key} is not an edge of the source"
                out.append(src_pairs[key])
            return out, None

        def close_lon(a, b, what):
            a, b = np.asarray(a, dtype=float), np.asarray(b, dtype=float)
            if a.shape != b.shape:
                return ("shape", f"{what}: shape {a.shape} vs source restricted {b.shape}")
            d = np.abs((a - b + 180.0) % 360.0 - 180.0)
            if np.any(~np.isfinite(a)) or (d.size and d.max() > 1e-9):
                return ("mismatch", f"{what} differs (modulo 360) from the source's value restricted to the selection (max {np.nanmax(d):.3g} deg)")
            if a.size and (a.min() < -180.0 - 1e-12 or a.max() > 180.0 + 1e-12):
                return ("range", f"{what} outside [-180, 180]: [{a.min()}, {a.max()}]")
            return None

        if name == "face_lon":
            return close_lon(v, twin_val(name)[sf], name)
        if name in ("face_lat", "face_x", "face_z", "face_areas", "n_nodes_per_face"):
            return close(v, twin_val(name)[sf], name)
        if name == "bounds":
            return close(v, twin_val(name)[sf], name, atol=1e-9)
        if name == "node_lon":
            return close_lon(v, twin_val(name)[sn], name)
        if name in ("node_x", "node_z"):
            return close(v, twin_val(name)[sn], name)
        if name in ("edge_lon", "edge_lat", "edge_x", "edge_node_distances", "edge_node_z"):
            em, err = edge_map()
            if em is None:
                return ("edge-map", err)
            t = twin_val(name)[em]
            if name == "edge_node_z":
                # the two columns follow the (arbitrary) node order within the edge
                return close(np.sort(v, axis=1), np.sort(t, axis=1), name)
            if name == "edge_lon":
                return close_lon(v, t, name)
            return close(v, t, name)
        if name == "edge_face_distances":
            return None  # computable is all that is asked (values legitimately differ on a restriction)
        if name == "n_edge":
            want = len(sm.edge_pairs())
            return None if int(val) == want else ("mismatch", f"n_edge {int(val)} but the selected faces have {want} boundary segments")
        if name == "antimeridian_face_indices":
            sure, unsure = sm.antimeridian_faces(margin=1e-3)
            # a node exactly on the antimeridian may be stored as +180 or -180
            on_am = [f for f, nodes in enumerate(sm.faces) if np.any(np.abs(np.abs(sm.lon[nodes]) - 180.0) < 1e-3)]
            unsure = sorted(set(unsure) | set(on_am))
            sure = [f for f in sure if f not in on_am]
            got = set(int(x) for x in np.atleast_1d(v).ravel())
            if not (set(sure) <= got <= set(sure) | set(unsure)):
                return ("mismatch", f"antimeridian_face_indices {sorted(got)[:8]} vs model {sure[:8]}")
            return None
        # structural tables against the result's own model
        if name == "edge_node_connectivity":
            got = sorted(tuple(sorted(map(int, r))) for r in v)
            if got != sm.edge_pairs():
                return ("mismatch", "edge_node_connectivity of the result is not the set of boundary segments of its faces")
            return None
        try:
            pairs = [tuple(sorted(map(int, r))) for r in np.asarray(sub.edge_node_connectivity.values)]
        except Exception as e:
            return (f"exception({type(e).__name__})", f"edge_node_connectivity on the result raised {type(e).__name__}: {str(e)[:160]}")
        if sorted(pairs) != sm.edge_pairs():
            return ("mismatch", "edge_node_connectivity of the result is not the set of boundary segments of its faces")
        eidx = {p: k for k, p in enumerate(pairs)}
        if name == "face_edge_connectivity":
            fe = sm.face_edges()
            if v.shape[0] != sm.n_face:
                return ("shape", f"face_edge_connectivity has {v.shape[0]} rows for {sm.n_face} faces")
            for f in range(sm.n_face):
                k = len(sm.faces[f])
                if list(v[f, :k]) != [eidx[p] for p in fe[f]] or np.any(v[f, k:] != INT_FILL):
                    return ("mismatch", f"face_edge_connectivity[{f}] = {v[f].tolist()} but its corners are joined by edges {[eidx[p] for p in fe[f]]}")
            return None
        if name == "edge_face_connectivity":
            ef = sm.edge_faces()
            for k, p in enumerate(pairs):
                got = [int(x) for x in v[k] if x != INT_FILL]
                if sorted(got) != sorted(ef[p]) or (len(got) == 1 and v[k, 0] == INT_FILL):
                    return ("mismatch", f"edge_face_connectivity[{k}] = {v[k].tolist()} but edge {p} bounds faces {ef[p]}")
            return None
        if name == "node_face_connectivity":
            nf = sm.node_faces()
            for nn in range(sm.n_node):
                got = sorted(int(x) for x in v[nn] if x != INT_FILL)
                if got != sorted(nf[nn]):
                    return ("mismatch", f"node_face_connectivity[{nn}] = {got} but node {nn} is a corner of faces {sorted(nf[nn])}")
            return None
        if name == "face_face_connectivity":
            ef = sm.edge_faces()
            for f, fe in enumerate(sm.face_edges()):
                want = sorted(o for p in fe for o in ef[p] if o != f)
                got = sorted(int(x) for x in v[f] if x != INT_FILL)
                if got != want:
                    return ("mismatch", f"face_face_connectivity[{f}] = {got} but the faces across its interior edges are {want}")
            return None
        if name == "hole_edge_indices":
            ef = sm.edge_faces()
            want = sorted(k for k, p in enumerate(pairs) if len(ef[p]) == 1)
            got = sorted(int(x) for x in np.atleast_1d(v).ravel())
            return None if got == want else ("mismatch", f"hole_edge_indices {got[:8]} but the edges with a single face are {want[:8]}")
        return None


PROFILE = Subset()
