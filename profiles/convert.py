"""C15 — exported polygons and lines correspond one-to-one with faces (profile `convert`).

History = seeded sequence of conversions of one grid (Grid.to_geodataframe / to_polycollection /
to_linecollection / antimeridian_face_indices and the UxDataArray counterparts for several
variables) with varying (periodic_elements, projection, engine, cache, override, return flags),
conversions that fail by contract, derivations and caller edits of returned objects.  Every
conversion is judged three ways: (a) against the mesh model (polygon <-> face, antimeridian
handling, data attribution through unique values), (b) against the same call on a freshly
constructed twin grid with no history, (c) every object returned earlier still has the digest
it had when it was returned unless the caller edited it."""

import numpy as np

from sim.profile import Profile, V

RULE = (
    "one run = one seeded source grid (catalogue mesh x provenance incl. 0..360 longitudes and padded mixed faces, or a sample "
    "file) + a seeded history (2-14 steps) of polygon/line conversions with varying arguments, data variables, failing "
    "conversions, derivations and caller edits; each conversion judged against the mesh model, against a fresh twin grid and "
    "for not altering earlier results. non-trivial = a judged conversion preceded by at least one conversion with different "
    "arguments / a different variable, a failed conversion or a caller edit on the same grid. distinct = different (source "
    "class, multiset of (abstract grid state incl. the three plotting-cache keys, op class)) fingerprint."
)
ASSUMPTIONS = [
    "mesh model: faces as cyclic corner lists with float64 lon/lat read from the grid's three primary variables; expected vertices are float32(lon, lat) or cartopy's projection of them (cartopy is trusted as the projection oracle)",
    "a face crosses the antimeridian iff two cyclically consecutive corners differ by >= 180 degrees of longitude; faces whose largest |dlon| is within 1e-3 of 180 are not generated",
    "split pieces are judged structurally (every face corner occurs, every other piece vertex lies on |lon| = 180 between the straight-line and great-circle crossing latitudes of a crossing edge, no piece edge spans >= 180, total planar area within a factor 2 of the unwrapped face; zero-width slivers ignored) and only for faces that neither touch nor enclose a pole",
    "with a projection the vertices may be the projected or (as 'ignore' does for collections) the raw lon/lat corners: the statement allows either; longitudes and the antimeridian are taken relative to the projection's central meridian (the map seam), faces with a node within 1e-3 deg of that seam are not judged; faces the projection cannot map (Orthographic far side) may be present or absent",
    "row/path order is the face order (that is what attaches a polygon to 'its' face)",
    "caller edits are never applied to the GeoDataFrame returned by Grid.to_geodataframe(cache=True) (that object is the cache itself: known finding of C19)",
]
COMPONENTS = {
    "real": ["uxarray Grid/UxDataArray conversions and their three caches", "shapely, antimeridian, spatialpandas, geopandas, matplotlib collections", "cartopy (system under test for the call, oracle for the expected projected coordinates)"],
    "seam": ["order and arguments of conversions, variables, caller edits (PRNG)", "module state via fork per run"],
    "uncontrolled": [],
}
BUDGET = {"quick": {"off_runs": 420, "on_runs": 24, "timeout": 400}, "thorough": {"budget_s": 900}}

MESHES = [
    ("band", {"nx": 8, "ny": 3}),
    ("band", {"nx": 6, "ny": 2, "lon0": -180.0}),
    ("band", {"nx": 5, "ny": 2, "lon0": -175.0, "lat0": -60.0, "lat1": 70.0}),
    ("patch", {"nx": 4, "ny": 3, "lon0": 150.0, "lon1": 200.0, "tri": 4}),
    ("patch", {"nx": 3, "ny": 2, "lon0": -30.0, "lon1": 40.0, "tri": 2}),
    ("mix", {"lon_c": 176.0}),
    ("mix", {"lon_c": -20.0, "lat_c": 50.0}),
    ("patch", {"nx": 3, "ny": 1, "lon0": 150.0, "lon1": 210.0, "lat0": -10.0, "lat1": 15.0}),  # exactly one crossing face
    ("patch", {"nx": 3, "ny": 2, "lon0": 20.0, "lon1": 80.0, "tri": 6}),  # n_node == n_face == 12
    ("cube", {"n": 2}),
    ("ico", {}),
    ("two", {}),
]
FILES = [
    {"kind": "file", "path": "ugrid/quad-hexagon/grid.nc"},
    {"kind": "file", "path": "mpas/QU/mesh.QU.1920km.151026.nc"},
    {"kind": "file", "path": "exodus/outCSne8/outCSne8.g"},
]
PES = ["exclude", "split", "ignore"]
PROJS = [None, None, None, None, "robinson", "robinson", "mollweide", "pc180", "rob100", "ortho", "ortho2"]
DERIVE = ["node_x", "face_lon", "face_areas", "n_nodes_per_face", "edge_node_connectivity", "bounds", "face_x", "edge_lon"]


def gen_source(rng):
    if rng.random() < 0.15:
        return dict(rng.choice(FILES))
    name, params = rng.choice(MESHES)
    spec = {"kind": "mesh", "mesh": name, "params": params, "variant": rng.choice([0, 1, 2, 3]), "jitter": rng.choice([0.0, 0.25])}
    if rng.random() < 0.7:
        spec["prov"] = "topology"
        d = {"lon360": rng.random() < 0.35, "start": rng.choice([0, 1])}
        if rng.random() < 0.4:
            d["fill"] = rng.choice([-1, -999])
        if rng.random() < 0.25:
            d["extra"] = ["node_xyz"]
        spec["dialect"] = d
    else:
        spec["prov"] = rng.choice(["ugrid_mem", "ugrid_mem", "esmf_mem"])
        spec["dialect"] = {"lon360": rng.random() < 0.5, "start": rng.choice([0, 1])}
    return spec


# ----------------------------------------------------------------------------
# model-side geometry
# ----------------------------------------------------------------------------
def dedup_ring(xy, atol):
    """Closed coordinate sequence -> open ring without consecutive duplicates."""
    xy = np.asarray(xy, dtype=np.float64)
    if xy.ndim != 2 or xy.shape[1] < 2:
        return np.zeros((0, 2))
    xy = xy[:, :2]
    keep = [0]
    for i in range(1, len(xy)):
        if np.max(np.abs(xy[i] - xy[keep[-1]])) > atol:
            keep.append(i)
    out = xy[keep]
    while len(out) > 1 and np.max(np.abs(out[-1] - out[0])) <= atol:
        out = out[:-1]
    return out


def ring_equal(got, want, atol):
    """Cyclic-rotation equality of two open rings (same direction)."""
    if len(got) != len(want):
        return False
    k = len(want)
    if k == 0:
        return True
    for s in range(k):
        if np.max(np.abs(np.roll(got, -s, axis=0) - want)) <= atol:
            return True
    return False


def shoelace(xy):
    x, y = xy[:, 0], xy[:, 1]
    return 0.5 * abs(np.dot(x, np.roll(y, -1)) - np.dot(y, np.roll(x, -1)))


class Frame:
    """The faces of one grid as seen under one projection: longitudes relative to the projection's
    central meridian (the library shifts them before building shells), the faces crossing that
    frame's seam, and the projected corner coordinates."""

    def __init__(self, mesh, proj_name):
        from sim import model as M
        from sim import ops as O

        self.mesh = mesh
        self.n = mesh.n_face
        self.proj_name = proj_name
        self.proj = O.projection(proj_name)
        self.lon0 = 0.0
        if self.proj is not None:
            pp = self.proj.proj4_params
            self.lon0 = float(pp.get("lon_0", pp.get("pm", 0.0)))  # PlateCarree keeps it as "pm"
        lon = mesh.lon if self.lon0 == 0.0 else M.wrap180(mesh.lon - self.lon0)
        self.lon = lon
        self.lon32 = lon.astype(np.float32).astype(np.float64)
        self.lat32 = mesh.lat.astype(np.float32).astype(np.float64)
        self.sure, self.unsure = [], []
        for f, nodes in enumerate(mesh.faces):
            lo = lon[nodes]
            d64 = np.abs(np.roll(lo, -1) - lo)
            lo32 = lo.astype(np.float32)
            d32 = np.abs(np.roll(lo32, -1) - lo32).astype(np.float64)  # what float32 shells give
            m = float(np.max(d64))
            on_seam = self.lon0 != 0.0 and bool(np.any(np.abs(np.abs(lo) - 180.0) < 1e-3))
            near = (np.abs(d64 - 180.0) <= 1e-3) | (np.abs(d32 - 180.0) <= 1e-3)
            # an edge spanning EXACTLY 180 degrees (pole node stored at longitude 0 next to a node
            # at +-180, as in cube-sphere files) is decidable: "at least 180" includes it
            exact = (d64 == 180.0) & (d32 == 180.0)
            if on_seam or bool(np.any(near & ~exact)):
                self.unsure.append(f)
            elif m >= 180.0:
                self.sure.append(f)
        self.cross = set(self.sure)
        self.pole_node = set()
        self.pole_enclosed = set()
        for f, nodes in enumerate(mesh.faces):
            if np.any(np.abs(mesh.lat[nodes]) > 89.999):
                self.pole_node.add(f)
            d = (np.roll(lon[nodes], -1) - lon[nodes] + 180.0) % 360.0 - 180.0
            if abs(abs(d.sum()) - 360.0) < 1.0:
                self.pole_enclosed.add(f)
        self.pxy = None
        self.undefined = set()  # faces with a corner the projection cannot map
        if self.proj is not None:
            import cartopy.crs as ccrs

            xyz = self.proj.transform_points(ccrs.PlateCarree(), mesh.lon, mesh.lat)
            self.pxy = xyz[:, :2].astype(np.float32).astype(np.float64)
            for f, nodes in enumerate(mesh.faces):
                if not np.all(np.isfinite(self.pxy[nodes])):
                    self.undefined.add(f)

    def raw_ring(self, f):
        nodes = self.mesh.faces[f]
        return np.stack([self.lon32[nodes], self.lat32[nodes]], axis=-1)

    def match_face(self, coords, f):
        """None if the closed coordinate sequence is face f's ring: its (lon, lat) corners in this
        frame, or their images under the projection."""
        got = dedup_ring(coords, 1e-4)
        rr = self.raw_ring(f)
        want = dedup_ring(np.vstack([rr, rr[:1]]), 1e-4)
        if ring_equal(got, want, 2e-4):
            return None
        if self.pxy is not None and f not in self.undefined:
            wp = self.pxy[self.mesh.faces[f]]
            scale = max(1.0, float(np.max(np.abs(wp))))
            wantp = dedup_ring(np.vstack([wp, wp[:1]]), 1e-6 * scale)
            gotp = dedup_ring(coords, 1e-6 * scale)
            if ring_equal(gotp, wantp, 1e-5 * scale):
                return None
        return f"vertices {np.round(got[:4], 4).tolist()}... are not face {f}'s corners {np.round(want[:4], 4).tolist()}..."

    def check_pieces(self, pieces, f):
        """Structural check of the pieces a crossing face was split into."""
        if f in self.pole_node or f in self.pole_enclosed:
            return None
        ring = self.raw_ring(f)
        k = len(ring)
        corners = [(float(x), float(y)) for x, y in ring]
        cross_lat = []
        for j in range(k):
            a, b = ring[j], ring[(j + 1) % k]
            if abs(a[0] - b[0]) >= 180.0:
                # where the edge meets the seam: anywhere between the straight (lon, lat)
                # interpolation and the great-circle arc (which bulges poleward) is accepted
                lo, hi = min(a[1], b[1]), max(a[1], b[1])
                from sim import model as M

                pa, pb = M.unit(a[0], a[1]), M.unit(b[0], b[1])
                nrm = np.cross(pa, pb)
                d = np.cross(nrm, np.array([0.0, 1.0, 0.0]))
                if np.linalg.norm(d) > 1e-12:
                    d = d / np.linalg.norm(d)
                    if d[0] > 0:
                        d = -d
                    gc = float(np.degrees(np.arcsin(np.clip(d[2], -1.0, 1.0))))
                    lo, hi = min(lo, gc), max(hi, gc)
                cross_lat.append((lo, hi))
        if len(pieces) < 1:
            return f"face {f} crosses the antimeridian but came back as {len(pieces)} piece(s)"
        seen = [False] * k
        area = 0.0
        solid = 0
        for pc in pieces:
            p = dedup_ring(pc, 1e-6)
            if len(p) < 3:
                continue  # zero-width sliver of a face that only touches the seam
            solid += 1
            d = np.abs(np.roll(p[:, 0], -1) - p[:, 0])
            if np.any(d >= 180.0):
                return f"a piece of face {f} still spans the antimeridian"
            area += shoelace(p)
            for x, y in p:
                hit = False
                for ci, (cx, cy) in enumerate(corners):
                    if abs(y - cy) <= 2e-4 and min(abs(x - cx), abs(abs(x - cx) - 360.0)) <= 2e-4:
                        seen[ci] = True
                        hit = True
                if hit:
                    continue
                if abs(abs(x) - 180.0) <= 1e-6 and any(lo - 1e-3 <= y <= hi + 1e-3 for lo, hi in cross_lat):
                    continue
                return f"piece vertex ({x:.4f}, {y:.4f}) is neither a corner of face {f} nor on the antimeridian between the ends of a crossing edge"
        if not all(seen):
            return f"corner(s) {[i for i, s2 in enumerate(seen) if not s2]} of face {f} are in none of its pieces"
        if solid == 0:
            return f"face {f} came back as degenerate pieces only"
        un = ring.copy()
        un[:, 0] = np.where(un[:, 0] < 0, un[:, 0] + 360.0, un[:, 0])
        want = shoelace(un)
        # planar sanity bound only: the cut follows the great circle, the reference is the straight
        # (lon, lat) polygon, and for large high-latitude faces the two differ by tens of percent
        if want > 0 and not (0.5 * want <= area <= 2.0 * want):
            return f"pieces of face {f} have total area {area:.4f}, the face {want:.4f}"
        return None

    def expected(self, pe):
        """(faces in order, optional subset): 'exclude' drops the faces crossing this frame's seam;
        faces the projection cannot map may or may not be present."""
        faces = [f for f in range(self.n) if not (pe == "exclude" and f in self.cross)]
        return faces, set(self.undefined)


class FaceModel:
    def __init__(self, mesh):
        self.mesh = mesh
        self.frames = {}

    def frame(self, proj_name):
        if proj_name not in self.frames:
            self.frames[proj_name] = Frame(self.mesh, proj_name)
        return self.frames[proj_name]


def align(items, faces, optional, match):
    """Attach each item to a face, in face order; faces in ``optional`` may be skipped.
    Returns (owner list, None) or (None, reason)."""
    owner = []
    p = 0
    for j, it in enumerate(items):
        while p < len(faces) and faces[p] in optional and match(it, faces[p]) is not None:
            p += 1
        if p >= len(faces):
            return None, f"item {j} of {len(items)} has no face left to belong to"
        why = match(it, faces[p])
        if why:
            return None, f"item {j}: {why}"
        owner.append(faces[p])
        p += 1
    rest = [f for f in faces[p:] if f not in optional]
    if rest:
        return None, f"{len(items)} items, but faces {rest[:8]} have none"
    return owner, None


def geom_rings(geom):
    """shapely geometry -> list of exterior coordinate arrays."""
    if geom is None:
        return []
    if geom.geom_type == "MultiPolygon":
        return [np.asarray(p.exterior.coords) for p in geom.geoms]
    if geom.geom_type == "Polygon":
        return [np.asarray(geom.exterior.coords)]
    return [np.zeros((0, 2))]


def gdf_geoms(gdf):
    mod = type(gdf).__module__
    col = gdf["geometry"]
    if mod.startswith("geopandas"):
        return list(col.values)
    arr = col.values
    return [arr[i].to_shapely() for i in range(len(arr))]


# ----------------------------------------------------------------------------
class Convert(Profile):
    name = "convert"
    prop = "C15"

    def gen_cfg(self, tier, jit):
        return {"tier": tier, "jit": bool(jit), "max_steps": 14 if tier == "thorough" else 9}

    def gen_conv(self, rng, prev=()):
        r = rng.random()
        pe = rng.choice(PES)
        proj = rng.choice(PROJS)
        if prev and rng.random() < 0.45:
            # come back to the arguments of an earlier conversion (cache hits, stale keys)
            o = rng.choice(prev)
            pe, proj = o["pe"], o.get("proj")
        op = {"pe": pe, "proj": proj, "cache": rng.random() < 0.7, "override": rng.random() < 0.15}
        if r < 0.3:
            op.update(op="gdf", engine=rng.choice(["spatialpandas", "spatialpandas", "geopandas"]), ret_idx=rng.random() < 0.2)
        elif r < 0.45:
            op.update(op="polyc", ret_idx=(pe == "split") or rng.random() < 0.4)
        elif r < 0.6:
            op.update(op="linec")
        elif r < 0.8:
            op.update(op="uxda_gdf", engine=rng.choice(["spatialpandas", "geopandas"]), var=rng.choice([0, 0, 1, 2]))
        else:
            op.update(op="uxda_polyc", var=rng.choice([0, 0, 1, 2]), ret_idx=rng.random() < 0.3)
        return op

    def generate(self, rng, cfg):
        sources = {"g0": gen_source(rng)}
        if rng.random() < 0.35:
            sources["g1"] = gen_source(rng)  # another grid alive in the same process
        hs = sorted(sources)
        n = rng.randint(2, cfg["max_steps"])
        ops = []
        nx = 0
        for i in range(n):
            r = rng.random()
            h = "g0" if rng.random() < 0.7 else rng.choice(hs)
            if r < 0.72 or i == n - 1:
                prev = [o for o in ops if "pe" in o]
                if len(hs) > 1 and prev and rng.random() < 0.35:
                    # the very same conversion, but of the OTHER grid alive in this process
                    o = rng.choice(prev)
                    op = {k: v for k, v in o.items() if k not in ("as", "g")}
                    h = [x for x in hs if x != o.get("g", "g0")][0]
                else:
                    op = self.gen_conv(rng, prev)
                op["as"] = f"x{nx}"
                op["g"] = h
                nx += 1
                ops.append(op)
            elif r < 0.8:
                ops.append({"op": "am", "g": h})
            elif r < 0.88:
                ops.append({"op": "derive", "name": rng.choice(DERIVE), "g": h})
            elif nx:
                ops.append({"op": "edit", "x": f"x{rng.randrange(nx)}", "k": rng.randrange(1000)})
            else:
                ops.append({"op": "am", "g": h})
        return {"sources": sources, "ops": ops}

    def simplify_sources(self, sources):
        if "g1" in sources:
            yield {"g0": sources["g0"]}

    def simplify(self, op):
        if op["op"] in ("gdf", "polyc", "linec", "uxda_gdf", "uxda_polyc"):
            if op.get("override"):
                yield dict(op, override=False)
            if op.get("ret_idx"):
                yield dict(op, ret_idx=False)
            if op.get("var"):
                yield dict(op, var=0)

    def op_class(self, op):
        n = op["op"]
        if n in ("gdf", "polyc", "linec", "uxda_gdf", "uxda_polyc"):
            return f"{n}:{op['pe']}:{'proj' if op.get('proj') else 'noproj'}:{'cache' if op.get('cache', True) else 'nocache'}"
        return n

    # ------------------------------------------------------------------
    def begin(self, W):
        W.fm = {}
        W.returned = {}  # handle -> {"obj", "digest", "edited", "op"}
        W.last_conv = {}
        W.perturbed = False

    def fm(self, W, h="g0"):
        if h not in W.fm:
            W.fm[h] = FaceModel(W.model(h))
        return W.fm[h]

    @staticmethod
    def handle(W, op):
        h = op.get("g", "g0")
        return h if h in W.trace["sources"] else "g0"

    def data(self, g, var):
        import uxarray as ux

        vals = 1000.0 * (var + 1) + np.arange(g.n_face, dtype=np.float64) + 0.25
        return ux.UxDataArray(vals, dims=["n_face"], uxgrid=g, name=f"v{var}")

    @staticmethod
    def decode(values, var):
        return np.rint(np.asarray(values, dtype=np.float64) - 1000.0 * (var + 1) - 0.25).astype(int)

    def call(self, g, op):
        from sim import ops as O

        n = op["op"]
        kw = dict(periodic_elements=op["pe"], projection=O.projection(op.get("proj")), cache=op.get("cache", True), override=op.get("override", False))
        if n == "gdf":
            kw["engine"] = op["engine"]
            if op.get("ret_idx"):
                kw["return_non_nan_polygon_indices"] = True
            return g.to_geodataframe(**kw)
        if n == "polyc":
            if op.get("ret_idx"):
                kw["return_indices"] = True
            return g.to_polycollection(**kw)
        if n == "linec":
            return g.to_linecollection(**kw)
        da = self.data(g, op.get("var", 0))
        if n == "uxda_gdf":
            kw["engine"] = op["engine"]
            return da.to_geodataframe(**kw)
        if n == "uxda_polyc":
            if op.get("ret_idx"):
                kw["return_indices"] = True
            return da.to_polycollection(**kw)
        raise ValueError(n)

    @staticmethod
    def canon(obj):
        from sim import canon as C
        from sim import ops as O

        if isinstance(obj, tuple):
            return ("seq", tuple(Convert.canon(o) for o in obj))
        if type(obj).__name__ in ("GeoDataFrame", "PolyCollection", "LineCollection"):
            return O.canon_any(obj)
        if isinstance(obj, list):
            return C.canon(np.asarray(obj, dtype=np.int64))
        return C.canon(obj)

    # ------------------------------------------------------------------
    def step(self, W, i, op):
        from sim import canon as C

        n = op["op"]
        h = self.handle(W, op)
        g = W.grid(h)
        if n == "derive":
            try:
                getattr(g, op["name"])
                out = ("derived",)
            except Exception as e:
                out = ("exc", type(e).__name__)
            W.fire("prior_derivation")
            return out, self.check_returned(W, i, "derive")
        if n == "edit":
            return self.do_edit(W, i, op)
        if n == "am":
            W.cov["judged"] += 1
            if W.perturbed:
                W.cov["nontrivial"] = True
            try:
                am = np.asarray(g.antimeridian_face_indices).astype(int).ravel()
            except Exception as e:
                return ("exc", type(e).__name__), [V(f"C15/am/exception({type(e).__name__})", i, str(e)[:200])]
            fm = self.fm(W, h).frame(None)
            got = set(am.tolist())
            vs = []
            if not (set(fm.sure) <= got <= set(fm.sure) | set(fm.unsure)) or len(got) != len(am):
                vs.append(V("C15/am/mismatch", i, f"antimeridian_face_indices {sorted(got)[:12]} but the faces with an edge spanning >= 180 degrees are {fm.sure[:12]}"))
            return C.canon(am), vs or self.check_returned(W, i, "am")
        return self.judged(W, i, op)

    def judged(self, W, i, op):
        from sim import canon as C
        from sim import world as Wd

        h = self.handle(W, op)
        g = W.grid(h)
        n = op["op"]
        sig = f"C15/{n}[pe={op['pe']},proj={'P' if op.get('proj') else None}]"
        W.cov["judged"] += 1
        key = (h, n.replace("uxda_", ""))
        if W.last_conv and all(k[0] != h for k in W.last_conv):
            W.fire("other_grid")
            W.perturbed = True
        args = (op["pe"], op.get("proj"), op.get("engine"), op.get("var"))
        if key in W.last_conv and W.last_conv[key] != args:
            W.fire("arg_switch")
            W.perturbed = True
        elif W.last_conv:
            W.fire("prior_conversion")
        if W.perturbed:
            W.cov["nontrivial"] = True
        try:
            obj = self.call(g, op)
            out = self.canon(obj)
            exc = None
        except Exception as e:
            obj, exc = None, e
            out = ("exc", type(e).__name__)
        W.last_conv[key] = args
        # (b) fresh twin
        twin = Wd.open_source(W.trace["sources"][h], W.scratch).grid
        try:
            ref = self.canon(self.call(twin, op))
        except Exception as e:
            ref = ("exc", type(e).__name__)
        is_exc = lambda c: isinstance(c, tuple) and len(c) == 2 and c[0] == "exc"
        if is_exc(out) or is_exc(ref):
            documented = op["pe"] == "split" and op.get("proj") is not None and n != "linec"
            if is_exc(ref) and is_exc(out) and out[1] == ref[1] and not (documented and out[1] == "ValueError"):
                # only split + projection is documented to fail; any other conversion of a valid
                # grid with a cartopy projection is promised a result
                return out, [V(f"{sig}/exception({out[1]})", i, f"{n} {self.args_str(op)} raises {out[1]} (also on a fresh grid): {type(exc).__name__}: {str(exc)[:200]}")]
            if is_exc(ref) and is_exc(out) and out[1] == ref[1]:
                W.fire("failed_op")
                W.cov["failed_ops"] += 1
                W.perturbed = True
                return out, self.check_returned(W, i, n)
            kind = f"exception({out[1]})!=fresh" if is_exc(out) else f"value!=fresh-exception({ref[1]})"
            detail = f"{n} {self.args_str(op)} after {i} earlier steps: {out if is_exc(out) else 'returns a value'}; a fresh grid: {ref if is_exc(ref) else 'returns a value'}"
            if exc is not None:
                detail += f" [{type(exc).__name__}: {str(exc)[:160]}]"
            return out, [V(f"{sig}/{kind}", i, detail)]
        why = C.same(out, ref)
        if why:
            return out, [V(f"{sig}/history-dependent", i, f"{n} {self.args_str(op)} after {i} earlier steps differs from the same call on a fresh grid: {why}")]
        # (a) model
        if True:
            fm = self.fm(W, h).frame(op.get("proj"))
            if not fm.unsure:
                why = self.model_check(fm, op, obj)
                if why:
                    return out, [V(f"{sig}/{why[0]}", i, f"{n} {self.args_str(op)}: {why[1]}")]
        # (c) earlier results untouched
        vs = self.check_returned(W, i, n)
        h = op.get("as")
        if h and h not in W.returned:
            first = obj[0] if isinstance(obj, tuple) else obj
            W.returned[h] = {"obj": obj, "digest": C.digest(out), "edited": False, "op": op, "is_cache": first is g._gdf_cached_parameters.get("gdf")}
        return out, vs

    @staticmethod
    def args_str(op):
        return "(" + ", ".join(f"{k}={op[k]!r}" for k in ("pe", "proj", "engine", "cache", "override", "ret_idx", "var") if k in op) + ")"

    # ------------------------------------------------------------------
    def model_check(self, fm, op, obj):
        n = op["op"]
        pe = op["pe"]
        idx = None
        if isinstance(obj, tuple):
            obj, idx = obj
        faces, optional = fm.expected(pe)
        if n in ("gdf", "uxda_gdf"):
            geoms = gdf_geoms(obj)

            def match(geom, f):
                rings = geom_rings(geom)
                if pe == "split" and f in fm.cross:
                    return fm.check_pieces(rings, f)
                if len(rings) != 1:
                    return f"{len(rings)} rings for the single face {f}"
                return fm.match_face(rings[0], f)

            owner, why = align(geoms, faces, optional, match)
            if why:
                kind = "split-pieces" if "piece" in why else ("row-count" if "items" in why or "no face left" in why else "polygon-face")
                return (kind, why + f" (n_face={fm.n}, crossing={sorted(fm.cross)[:8]}, unmappable={sorted(fm.undefined)[:8]})")
            if n == "uxda_gdf":
                var = op.get("var", 0)
                col = f"v{var}"
                if col not in obj.columns:
                    return ("data-column", f"no column {col} in {list(map(str, obj.columns))}")
                got = self.decode(obj[col].values, var)
                if len(got) != len(owner) or np.any(got != np.asarray(owner)):
                    bad = [j for j in range(min(len(got), len(owner))) if got[j] != owner[j]][:5]
                    return ("data-attribution", f"rows {bad} carry the values of faces {[int(got[j]) for j in bad]} but their polygons are faces {[owner[j] for j in bad]}" if bad else f"{len(got)} values for {len(owner)} rows")
                extra = [c for c in map(str, obj.columns) if c not in ("geometry", col)]
                if extra:
                    return ("data-column", f"unexpected extra columns {extra}")
            elif [c for c in map(str, obj.columns) if c != "geometry"]:
                return ("data-column", f"Grid.to_geodataframe returned extra columns {list(map(str, obj.columns))}")
            return None
        if n in ("polyc", "uxda_polyc"):
            paths = [np.asarray(p.vertices) for p in obj.get_paths()]
            vals = None
            if n == "uxda_polyc":
                arr = obj.get_array()
                if arr is None:
                    return ("data-attribution", "no data array on the PolyCollection")
                vals = self.decode(np.asarray(arr), op.get("var", 0))
                if len(vals) != len(paths):
                    return ("data-attribution", f"{len(vals)} values for {len(paths)} polygons")
            if pe != "split":
                owner, why = align(paths, faces, optional, lambda pth, f: fm.match_face(pth, f))
                if why:
                    return ("path-count" if "items" in why or "no face left" in why else "polygon-face", why + f" (n_face={fm.n}, crossing={sorted(fm.cross)[:8]}, unmappable={sorted(fm.undefined)[:8]})")
            else:
                # the library's own map (returned indices, or the data values) names the owner of
                # every piece; it is then checked against the geometry
                if vals is not None:
                    owner = [int(v) for v in vals]
                elif idx is not None:
                    owner = [int(v) for v in np.asarray(idx).ravel()]
                else:
                    return None  # generator always asks for indices under 'split'
                if len(owner) != len(paths):
                    return ("returned-indices", f"{len(owner)} owners for {len(paths)} polygons")
                if any(b2 < a2 for a2, b2 in zip(owner[:-1], owner[1:])) or sorted(set(owner)) != list(range(fm.n)):
                    return ("path-count", f"pieces are not grouped per face in face order, or a face is missing: owners {owner[:12]}")
                for j, f in enumerate(owner):
                    if f in fm.cross:
                        continue
                    if owner.count(f) != 1:
                        return ("polygon-face", f"face {f} does not cross the antimeridian but has {owner.count(f)} polygons")
                    why = fm.match_face(paths[j], f)
                    if why:
                        return ("polygon-face", f"polygon {j}: {why}")
                for f in sorted(fm.cross):
                    why = fm.check_pieces([paths[j] for j in range(len(paths)) if owner[j] == f], f)
                    if why:
                        return ("split-pieces", why)
            if idx is not None:
                want_idx = owner if pe != "ignore" else []
                if [int(v) for v in np.asarray(idx).ravel()] != list(want_idx) and not (pe == "exclude" and optional):
                    return ("returned-indices", f"returned face indices {list(np.asarray(idx).ravel())[:10]} but the polygons belong to faces {list(want_idx)[:10]}")
            if vals is not None and [int(v) for v in vals] != list(owner):
                bad = [j for j in range(len(owner)) if int(vals[j]) != owner[j]][:5]
                return ("data-attribution", f"polygons {bad} carry the values of faces {[int(vals[j]) for j in bad]} but are faces {[owner[j] for j in bad]}")
            return None
        if n == "linec":
            segs = [np.asarray(sg) for sg in obj.get_segments()]
            if pe != "split":
                owner, why = align(segs, faces, optional, lambda sg, f: fm.match_face(sg, f))
                if why:
                    return ("path-count" if "items" in why or "no face left" in why else "line-face", why)
                return None
            # split: every non-crossing face's ring appears, in face order; what is left are the
            # pieces of the crossing faces, none of which may span the antimeridian
            j = 0
            rest = []
            for f in faces:
                if f in fm.cross:
                    continue
                while j < len(segs) and fm.match_face(segs[j], f) is not None:
                    rest.append(segs[j])
                    j += 1
                if j >= len(segs):
                    if f in optional:
                        continue
                    return ("line-face", f"the boundary of face {f} is missing from the lines (or out of order)")
                j += 1
            rest += segs[j:]
            judged_cross = [f for f in fm.cross if f not in fm.pole_node and f not in fm.pole_enclosed]
            if len(judged_cross) == len(fm.cross) and not optional:
                if len(rest) < len(fm.cross):
                    return ("split-pieces", f"{len(rest)} lines left for {len(fm.cross)} crossing faces")
                for sgm in rest:
                    q = dedup_ring(sgm, 1e-6)
                    if len(q) and np.any(np.abs(np.roll(q[:, 0], -1) - q[:, 0]) >= 180.0):
                        return ("split-pieces", "a line of a split face still spans the antimeridian")
            return None
        return None

    # ------------------------------------------------------------------
    def check_returned(self, W, i, what):
        from sim import canon as C

        for h in sorted(W.returned):
            x = W.returned[h]
            if x["edited"]:
                continue
            try:
                cur = C.digest(self.canon(x["obj"]))
            except Exception as e:
                cur = "unreadable:" + type(e).__name__
            if cur != x["digest"]:
                return [V(f"C15/{x['op']['op']}/returned-object-altered", i, f"the object returned by step {h} ({x['op']['op']} {self.args_str(x['op'])}) was altered by a later {what}")]
        return []

    def do_edit(self, W, i, op):
        h = op["x"]
        if h not in W.returned:
            return ("skip",), []
        x = W.returned[h]
        obj = x["obj"][0] if isinstance(x["obj"], tuple) else x["obj"]
        if x.get("is_cache"):
            # Grid.to_geodataframe hands out its cache itself (also for cache=False calls that hit
            # it): editing that object is the known finding of C19, not a C15 perturbation
            return ("skip-cached-gdf",), []
        tn = type(obj).__name__
        k = op["k"]
        try:
            if tn == "GeoDataFrame":
                if k % 2 == 0:
                    obj["junk"] = np.arange(len(obj), dtype=float)
                else:
                    obj.drop(obj.index[: max(1, len(obj) // 2)], inplace=True)
                kind = "gdf"
            elif tn == "PolyCollection":
                if k % 2 == 0:
                    obj.set_array(np.full(len(obj.get_paths()), -5.0))
                else:
                    for p in obj.get_paths():
                        if p.vertices.flags.writeable:
                            p.vertices[...] = 0.0
                kind = "polyc"
            elif tn == "LineCollection":
                obj.set_segments([np.zeros((2, 2))])
                kind = "linec"
            else:
                kind = "none"
        except Exception as e:
            kind = "edit-failed:" + type(e).__name__
        x["edited"] = True
        W.fire("caller_edit")
        W.perturbed = True
        return (kind,), self.check_returned(W, i, "caller edit of another object")


PROFILE = Convert()
