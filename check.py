#!/venv/bin/python
"""Single entry point.

  check.py --property Cnn [--tier quick|thorough]     run the check (exit 0 held / 1 VIOLATION / 2 HARNESS-ERROR)
  check.py --replay <file>                             re-execute a replay file in a fresh interpreter
  check.py --selftest determinism --property Cnn [--n N]
  check.py --zygote <jobfile>                          (internal)
"""
import argparse
import os
import sys

HERE = os.path.dirname(os.path.abspath(__file__))
sys.path.insert(0, HERE)


def main():
    ap = argparse.ArgumentParser()
    ap.add_argument("--property")
    ap.add_argument("--tier", default=os.environ.get("VERIF_TIER", "quick"))
    ap.add_argument("--replay")
    ap.add_argument("--zygote")
    ap.add_argument("--selftest")
    ap.add_argument("--n", type=int, default=60)
    ap.add_argument("--jit", choices=["on", "off"], default=None)
    ap.add_argument("--debug-index", type=int, default=None)
    a = ap.parse_args()
    if a.zygote:
        from sim import engine

        engine.zygote_main(a.zygote)
        return 0
    if os.environ.get("PYTHONHASHSEED") != "0":
        os.environ["PYTHONHASHSEED"] = "0"
        os.execv(sys.executable, [sys.executable] + sys.argv)
    from sim import engine

    seed = int(os.environ.get("VERIF_SEED", "0") or 0)
    if a.replay:
        code, _ = engine.replay_file(a.replay)
        return code
    if a.selftest:
        from sim import selftest

        return selftest.main(a.selftest, a.property, a.n, seed)
    if not a.property:
        ap.error("--property required")
    if a.debug_index is not None:
        import subprocess

        z = engine.spawn_zygote({"property": a.property, "mode": "debug", "tier": a.tier, "base_seed": seed, "index": a.debug_index, "workers": 1}, a.jit != "off")
        z["proc"].wait()
        print(open(z["log"]).read())
        engine.cleanup_jobfiles(z)
        return 0
    tier = a.tier if a.tier in ("quick", "thorough") else "quick"
    return engine.run_check(a.property, tier, seed, only_jit=a.jit)


if __name__ == "__main__":
    sys.exit(main())
